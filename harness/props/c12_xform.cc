// C12 (part 2) — transforms preserve surface point sets: translating,
// rotating, reflecting, permuting and simplifying a surface gives a surface
// whose sense at the transformed point equals the sign of the original
// surface function at the original point; transform_down inverts
// transform_up; calc_inverse composes to identity; SignedPermutation agrees
// with its matrix; TransformSimplifier moves points by no more than its
// tolerance.  (Intersections / normals: c12_surf.cc.)
#include <algorithm>
#include <cmath>
#include <cstdio>
#include <cstdlib>
#include <set>
#include <string>
#include <variant>
#include <vector>

#include "caselog.hh"
#include "corecel/Assert.hh"
#include "corecel/Constants.hh"
#include "corecel/cont/Array.hh"
#include "corecel/math/Turn.hh"
#include "orange/MatrixUtils.hh"
#include "orange/OrangeTypes.hh"
#include "orange/surf/RecursiveSimplifier.hh"
#include "orange/surf/VariantSurface.hh"
#include "orange/transform/SignedPermutation.hh"
#include "orange/transform/TransformSimplifier.hh"
#include "orange/transform/Transformation.hh"
#include "orange/transform/Translation.hh"
#include "orange/transform/VariantTransform.hh"

namespace verif
{
char const* const kPropertyId = "C12";
char const* const kHarness = "c12_xform";
size_t const kMaxBytes = 256;
char const* const kRule
    = "byte string -> (surface of 18 classes incl. near-degenerate quadrics "
      "that the simplifier can reduce, transform: translation / random "
      "rotation / quarter-turn signed permutation / reflection / small angle "
      "/ identity-like, simplifier tolerance 1e-10|1.5e-8|1e-6, 6 points "
      "near and away from the surface); oracle = long-double surface function "
      "of the ORIGINAL surface at R^T(x'-t), sign compared with calc_sense of "
      "the transformed (and recursively simplified, flip-corrected) surface "
      "at x' when |f| exceeds k*eps*|R~|^T|Q||R~| rounding chain + snapping "
      "bound; matrix/vector transforms against long-double products; "
      "non-trivial = a non-identity transform with at least one inside and "
      "one outside point verified on the transformed surface";
void setup() {}

namespace
{
using namespace celeritas;
using LD = long double;
constexpr LD eps = 1.1102230246251565e-16L;
constexpr LD KT = 64;
constexpr LD pi_ld = 3.14159265358979323846264338327950288L;

char const* intern(std::string const& s)
{
    static std::set<std::string> pool;
    return pool.insert(s).first->c_str();
}

std::string fmt(LD v)
{
    char buf[64];
    std::snprintf(buf, sizeof buf, "%.17Lg", v);
    return buf;
}

LD norm3(LD const v[3])
{
    return sqrtl(v[0] * v[0] + v[1] * v[1] + v[2] * v[2]);
}

void unit_ld(Choices& c, LD u[3])
{
    double t[3];
    c.unit_vector(t);
    for (int i = 0; i < 3; ++i)
        u[i] = t[i];
}

double coord(Choices& c, double lo, double hi, double pzero, double ptiny = 0)
{
    if (c.boolean(pzero))
        return 0.0;
    if (ptiny > 0 && c.boolean(ptiny))
        return c.signed_log_uniform(1e-14, 1e-7);
    return c.signed_log_uniform(lo, hi);
}

//---------------------------------------------------------------------------//
// Symmetric 4x4 quadric matrix:  f(x) = X^T Q X,  X = (1, x, y, z)
struct Q4
{
    LD m[4][4] = {{0, 0, 0, 0}, {0, 0, 0, 0}, {0, 0, 0, 0}, {0, 0, 0, 0}};
    void set(LD const A[3], LD const D[3], LD const G[3], LD J)
    {
        m[0][0] = J;
        for (int i = 0; i < 3; ++i)
        {
            m[i + 1][i + 1] = A[i];
            m[0][i + 1] = m[i + 1][0] = G[i] / 2;
        }
        m[1][2] = m[2][1] = D[0] / 2;
        m[2][3] = m[3][2] = D[1] / 2;
        m[1][3] = m[3][1] = D[2] / 2;
    }
    LD eval(LD const x[3]) const
    {
        LD X[4] = {1, x[0], x[1], x[2]};
        LD s = 0;
        for (int i = 0; i < 4; ++i)
            for (int j = 0; j < 4; ++j)
                s += X[i] * m[i][j] * X[j];
        return s;
    }
    LD eval_abs(LD const v[4]) const
    {
        LD s = 0;
        for (int i = 0; i < 4; ++i)
            for (int j = 0; j < 4; ++j)
                s += fabsl(v[i] * m[i][j] * v[j]);
        return s;
    }
    LD max_coef() const
    {
        LD s = 0;
        for (int i = 0; i < 4; ++i)
            for (int j = 0; j < 4; ++j)
                s = std::max(s, fabsl(m[i][j]));
        return 2 * s;
    }
};

struct ToQ4
{
    template<Axis T>
    Q4 operator()(PlaneAligned<T> const& s) const
    {
        LD A[3] = {0, 0, 0}, D[3] = {0, 0, 0}, G[3] = {0, 0, 0};
        G[to_int(T)] = 1;
        Q4 q;
        q.set(A, D, G, -(LD)s.position());
        return q;
    }
    Q4 operator()(Plane const& s) const
    {
        LD A[3] = {0, 0, 0}, D[3] = {0, 0, 0};
        LD G[3] = {s.normal()[0], s.normal()[1], s.normal()[2]};
        Q4 q;
        q.set(A, D, G, -(LD)s.displacement());
        return q;
    }
    static Q4 shifted(LD const A[3], LD const o[3], LD k)
    {
        // sum A_i (x_i - o_i)^2 + k
        LD D[3] = {0, 0, 0}, G[3], J = k;
        for (int i = 0; i < 3; ++i)
        {
            G[i] = -2 * A[i] * o[i];
            J += A[i] * o[i] * o[i];
        }
        Q4 q;
        q.set(A, D, G, J);
        return q;
    }
    template<Axis T>
    Q4 operator()(CylCentered<T> const& s) const
    {
        LD A[3] = {1, 1, 1}, o[3] = {0, 0, 0};
        A[to_int(T)] = 0;
        return shifted(A, o, -(LD)s.radius_sq());
    }
    template<Axis T>
    Q4 operator()(CylAligned<T> const& s) const
    {
        LD A[3] = {1, 1, 1};
        A[to_int(T)] = 0;
        Real3 oo = s.calc_origin();
        LD o[3] = {oo[0], oo[1], oo[2]};
        return shifted(A, o, -(LD)s.radius_sq());
    }
    Q4 operator()(SphereCentered const& s) const
    {
        LD A[3] = {1, 1, 1}, o[3] = {0, 0, 0};
        return shifted(A, o, -(LD)s.radius_sq());
    }
    Q4 operator()(Sphere const& s) const
    {
        LD A[3] = {1, 1, 1};
        LD o[3] = {s.origin()[0], s.origin()[1], s.origin()[2]};
        return shifted(A, o, -(LD)s.radius_sq());
    }
    template<Axis T>
    Q4 operator()(ConeAligned<T> const& s) const
    {
        LD A[3] = {1, 1, 1};
        A[to_int(T)] = -(LD)s.tangent_sq();
        LD o[3] = {s.origin()[0], s.origin()[1], s.origin()[2]};
        return shifted(A, o, 0);
    }
    Q4 operator()(SimpleQuadric const& s) const
    {
        LD A[3], D[3] = {0, 0, 0}, G[3];
        for (int i = 0; i < 3; ++i)
        {
            A[i] = s.second()[i];
            G[i] = s.first()[i];
        }
        Q4 q;
        q.set(A, D, G, s.zeroth());
        return q;
    }
    Q4 operator()(GeneralQuadric const& s) const
    {
        LD A[3], D[3], G[3];
        for (int i = 0; i < 3; ++i)
        {
            A[i] = s.second()[i];
            D[i] = s.cross()[i];
            G[i] = s.first()[i];
        }
        Q4 q;
        q.set(A, D, G, s.zeroth());
        return q;
    }
    Q4 operator()(Involute const&) const { return Q4{}; }
};

char const* type_name(VariantSurface const& v)
{
    return std::visit(
        [](auto const& s) {
            return to_cstring(std::decay_t<decltype(s)>::surface_type());
        },
        v);
}

// QuadricPlaneConverter's CELER_EXPECT: a quadric whose second-order (and
// cross) terms are all below the tolerance must have a first-order term above
// it.  SurfaceSimplifier does not guard this: with assertions off such a
// quadric becomes Plane{NaN} and RecursiveSimplifier never terminates.  Out of
// contract for this harness (see notes: observation O1).
bool simplifier_degenerate(VariantSurface const& v, double tol)
{
    auto small3 = [tol](auto const& a) {
        return std::fabs(a[0]) < tol && std::fabs(a[1]) < tol
               && std::fabs(a[2]) < tol;
    };
    if (auto const* sq = std::get_if<SimpleQuadric>(&v))
        return small3(sq->second()) && small3(sq->first());
    if (auto const* gq = std::get_if<GeneralQuadric>(&v))
        return small3(gq->second()) && small3(gq->cross())
               && small3(gq->first());
    return false;
}

SignedSense sense_of(VariantSurface const& v, Real3 const& x)
{
    return std::visit([&](auto const& s) { return s.calc_sense(x); }, v);
}

//---------------------------------------------------------------------------//
// Reference transform x' = R x + t (long double copies of the stored data)
struct XfRef
{
    LD R[3][3] = {{1, 0, 0}, {0, 1, 0}, {0, 0, 1}};
    LD t[3] = {0, 0, 0};
    void up(LD const x[3], LD out[3]) const
    {
        for (int i = 0; i < 3; ++i)
            out[i] = R[i][0] * x[0] + R[i][1] * x[1] + R[i][2] * x[2] + t[i];
    }
    void down(LD const x[3], LD out[3]) const
    {
        LD y[3] = {x[0] - t[0], x[1] - t[1], x[2] - t[2]};
        for (int i = 0; i < 3; ++i)
            out[i] = R[0][i] * y[0] + R[1][i] * y[1] + R[2][i] * y[2];
    }
    // |R~^-1| (1,|x'|): first-order bound vector for the rounding chain
    void chain_vec(LD const xp[3], LD v[4]) const
    {
        // Norm-wise (not component-wise): R is orthonormal only to a few
        // eps, and R^T R - I mixes all coordinates even when |R| ~ I.
        v[0] = 1;
        LD s = 0;
        for (int j = 0; j < 3; ++j)
            s += fabsl(xp[j]) + fabsl(t[j]);
        for (int i = 0; i < 3; ++i)
        {
            LD col = 0;
            for (int j = 0; j < 3; ++j)
                col = std::max(col, fabsl(R[j][i]));
            v[i + 1] = s * std::max(col, (LD)0.5);
        }
    }
};

XfRef ref_of(VariantTransform const& vt)
{
    XfRef r;
    if (auto const* tl = std::get_if<Translation>(&vt))
    {
        for (int i = 0; i < 3; ++i)
            r.t[i] = tl->translation()[i];
    }
    else if (auto const* tf = std::get_if<Transformation>(&vt))
    {
        for (int i = 0; i < 3; ++i)
        {
            r.t[i] = tf->translation()[i];
            for (int j = 0; j < 3; ++j)
                r.R[i][j] = tf->rotation()[i][j];
        }
    }
    return r;
}

void gen_rotation(Choices& c, LD R[3][3])
{
    LD qv[4];
    LD n = 0;
    for (int i = 0; i < 4; ++i)
    {
        qv[i] = c.real_in(-1, 1);
        n += qv[i] * qv[i];
    }
    if (n < 1e-6L)
    {
        qv[0] = 1;
        qv[1] = qv[2] = qv[3] = 0;
        n = 1;
    }
    n = sqrtl(n);
    LD w = qv[0] / n, x = qv[1] / n, yy = qv[2] / n, z = qv[3] / n;
    R[0][0] = 1 - 2 * (yy * yy + z * z);
    R[0][1] = 2 * (x * yy - z * w);
    R[0][2] = 2 * (x * z + yy * w);
    R[1][0] = 2 * (x * yy + z * w);
    R[1][1] = 1 - 2 * (x * x + z * z);
    R[1][2] = 2 * (yy * z - x * w);
    R[2][0] = 2 * (x * z - yy * w);
    R[2][1] = 2 * (yy * z + x * w);
    R[2][2] = 1 - 2 * (x * x + yy * yy);
}

// Explicit daughter-to-parent matrix of a signed permutation, from its
// documented meaning: row i has +-1 at the column named by permutation()[i].
// (Transformation(SignedPermutation const&) is declared in Transformation.hh
// but defined nowhere in the library, so it cannot be linked.)
Transformation perm_matrix(SignedPermutation const& sp)
{
    SquareMatrixReal3 m;
    auto ax = sp.permutation();
    for (int i = 0; i < 3; ++i)
        for (int j = 0; j < 3; ++j)
            m[i][j] = (j == to_int(ax[to_axis(i)].second))
                          ? (ax[to_axis(i)].first == '-' ? -1.0 : 1.0)
                          : 0.0;
    return Transformation{m, Real3{0, 0, 0}};
}

// Rodrigues rotation about unit axis by angle (long double)
void rodrigues(LD const ax[3], LD ang, LD R[3][3])
{
    LD cs = cosl(ang), sn = sinl(ang);
    for (int i = 0; i < 3; ++i)
        for (int j = 0; j < 3; ++j)
            R[i][j] = ax[i] * ax[j] * (1 - cs) + (i == j ? cs : 0);
    R[0][1] -= ax[2] * sn;
    R[0][2] += ax[1] * sn;
    R[1][0] += ax[2] * sn;
    R[1][2] -= ax[0] * sn;
    R[2][0] -= ax[1] * sn;
    R[2][1] += ax[0] * sn;
}

//---------------------------------------------------------------------------//
// Surface generation (parameters biased toward what the simplifier detects)
struct Geom
{
    LD centre[3] = {0, 0, 0};
    LD L = 1;
};

void gen_structured(Choices& c, bool rotate, LD A[3], LD D[3], LD G[3], LD& J,
                    Geom& geo, CaseLog& log)
{
    int shape = int(c.int_in(0, 8));
    int perm = int(c.int_in(0, 2));
    log.mix(shape);
    log.mix(perm);
    log.d("shape", shape);
    static int const sig[9][3] = {{1, 1, 1},
                                  {1, 1, -1},
                                  {1, 1, -1},
                                  {1, 1, -1},
                                  {1, 1, 0},
                                  {1, 1, 0},
                                  {1, -1, 0},
                                  {1, -1, 0},
                                  {1, 0, 0}};
    static int const kconst[9] = {-1, -1, 1, 0, -1, 0, 0, -1, 0};
    static int const linw[9] = {0, 0, 0, 0, 0, -1, -1, 0, -1};
    LD sax[3], cc[3];
    int eq = int(c.pick({40, 25, 35}));  // distinct / two equal / all equal
    sax[0] = c.log_uniform(1e-2, 1e2);
    sax[1] = eq >= 1 ? sax[0] : (LD)c.log_uniform(1e-2, 1e2);
    sax[2] = eq == 2 ? sax[0] : (LD)c.log_uniform(1e-2, 1e2);
    if (c.boolean(0.2))
        sax[1] *= 1 + (LD)c.signed_log_uniform(1e-14, 1e-6);
    for (int i = 0; i < 3; ++i)
        cc[i] = coord(c, 1e-3, 1e3, 0.3, 0.15);
    LD kappa = c.boolean(0.3) ? (c.boolean() ? -1.0L : 1.0L)
                              : (LD)c.signed_log_uniform(1e-2, 1e2);
    LD a[3], l[3];
    for (int i = 0; i < 3; ++i)
    {
        int j = (i + perm) % 3;
        a[j] = kappa * sig[shape][i] / (sax[i] * sax[i]);
        l[j] = (i == 2) ? kappa * linw[shape] / sax[i] : 0;
    }
    LD M[3][3] = {{a[0], 0, 0}, {0, a[1], 0}, {0, 0, a[2]}};
    LD lv[3] = {l[0], l[1], l[2]};
    if (rotate)
    {
        LD R[3][3];
        int rk = int(c.pick({50, 30, 20}));
        if (rk == 0)
            gen_rotation(c, R);
        else
        {
            // rotation about a cartesian axis: quarter turns or tiny angle
            LD ax[3] = {0, 0, 0};
            ax[c.int_in(0, 2)] = 1;
            LD ang = rk == 1 ? (LD)c.int_in(0, 3) * pi_ld / 2
                             : (LD)c.signed_log_uniform(1e-14, 1e-6);
            rodrigues(ax, ang, R);
        }
        LD T[3][3];
        for (int i = 0; i < 3; ++i)
            for (int j = 0; j < 3; ++j)
                T[i][j] = R[i][j] * a[j];
        for (int i = 0; i < 3; ++i)
        {
            for (int j = 0; j < 3; ++j)
            {
                M[i][j] = 0;
                for (int k = 0; k < 3; ++k)
                    M[i][j] += T[i][k] * R[j][k];
            }
            lv[i] = R[i][0] * l[0] + R[i][1] * l[1] + R[i][2] * l[2];
        }
    }
    for (int i = 0; i < 3; ++i)
        A[i] = M[i][i];
    D[0] = 2 * M[0][1];
    D[1] = 2 * M[1][2];
    D[2] = 2 * M[2][0];
    LD jj = kappa * kconst[shape];
    for (int i = 0; i < 3; ++i)
    {
        LD mc = M[i][0] * cc[0] + M[i][1] * cc[1] + M[i][2] * cc[2];
        G[i] = -2 * mc + lv[i];
        jj += cc[i] * mc - lv[i] * cc[i];
    }
    J = jj;
    for (int i = 0; i < 3; ++i)
        geo.centre[i] = cc[i];
    geo.L = cbrtl(sax[0] * sax[1] * sax[2]);
}

template<Axis T>
VariantSurface make_axis_surface(int family, Choices& c, Geom& geo)
{
    Real3 o{coord(c, 1e-3, 1e3, 0.3, 0.15), coord(c, 1e-3, 1e3, 0.3, 0.15),
            coord(c, 1e-3, 1e3, 0.3, 0.15)};
    switch (family)
    {
        case 0: {
            double pos = coord(c, 1e-3, 1e3, 0.15, 0.2);
            geo.centre[to_int(T)] = pos;
            geo.L = c.log_uniform(1e-2, 1e2);
            return PlaneAligned<T>(pos);
        }
        case 1: {
            double r = c.log_uniform(1e-3, 1e3);
            geo.L = r;
            return CylCentered<T>(r);
        }
        case 2: {
            double r = c.log_uniform(1e-3, 1e3);
            geo.L = r;
            o[to_int(T)] = 0;
            for (int i = 0; i < 3; ++i)
                geo.centre[i] = o[i];
            return CylAligned<T>(o, r);
        }
        default: {
            double tang = c.log_uniform(1e-3, 1e3);
            geo.L = c.log_uniform(1e-2, 1e2);
            for (int i = 0; i < 3; ++i)
                geo.centre[i] = o[i];
            return ConeAligned<T>(o, tang);
        }
    }
}

// Returns false when the constructor precondition cannot be met
bool gen_surface(Choices& c, CaseLog& log, VariantSurface& out, Geom& geo)
{
    // families: 0 plane-aligned 1 cyl-centered 2 cyl-aligned 3 cone
    //           4 plane 5 sphere-centered 6 sphere 7 sq 8 gq
    int fam = int(c.pick({6, 4, 8, 10, 10, 4, 8, 22, 28}));
    log.mix(fam);
    if (fam <= 3)
    {
        int ax = int(c.int_in(0, 2));
        log.mix(ax);
        switch (ax)
        {
            case 0: out = make_axis_surface<Axis::x>(fam, c, geo); break;
            case 1: out = make_axis_surface<Axis::y>(fam, c, geo); break;
            default: out = make_axis_surface<Axis::z>(fam, c, geo); break;
        }
        return true;
    }
    if (fam == 4)
    {
        LD n[3];
        unit_ld(c, n);
        int nk = int(c.pick({50, 30, 20}));
        if (nk >= 1)
        {
            int k = int(c.int_in(0, 2));
            LD e = nk == 1 ? (LD)c.log_uniform(1e-14, 1e-6) : 0.0L;
            bool neg = c.boolean();
            for (int i = 0; i < 3; ++i)
                n[i] = e * n[i] + (i == k ? (neg ? -1 : 1) : 0);
        }
        LD nn = norm3(n);
        Real3 nd{double(n[0] / nn), double(n[1] / nn), double(n[2] / nn)};
        double d = coord(c, 1e-3, 1e3, 0.15, 0.2);
        for (int i = 0; i < 3; ++i)
            geo.centre[i] = (LD)d * nd[i];
        geo.L = c.log_uniform(1e-2, 1e2);
        out = Plane(nd, d);
        return true;
    }
    if (fam == 5)
    {
        double r = c.log_uniform(1e-3, 1e3);
        geo.L = r;
        out = SphereCentered(r);
        return true;
    }
    if (fam == 6)
    {
        Real3 o{coord(c, 1e-3, 1e3, 0.3, 0.15),
                coord(c, 1e-3, 1e3, 0.3, 0.15),
                coord(c, 1e-3, 1e3, 0.3, 0.15)};
        double r = c.log_uniform(1e-3, 1e3);
        for (int i = 0; i < 3; ++i)
            geo.centre[i] = o[i];
        geo.L = r;
        out = Sphere(o, r);
        return true;
    }
    LD A[3], D[3] = {0, 0, 0}, G[3], J;
    bool structured = c.boolean(0.75);
    if (structured)
        gen_structured(c, fam == 8, A, D, G, J, geo, log);
    else
    {
        for (int i = 0; i < 3; ++i)
            A[i] = coord(c, 1e-3, 1e3, 0.25, 0.1);
        if (fam == 8)
            for (int i = 0; i < 3; ++i)
                D[i] = coord(c, 1e-3, 1e3, 0.25, 0.1);
        for (int i = 0; i < 3; ++i)
            G[i] = coord(c, 1e-3, 1e3, 0.25, 0.1);
        J = coord(c, 1e-3, 1e3, 0.15, 0.1);
        geo.L = c.log_uniform(1e-2, 1e2);
    }
    Real3 Ad, Dd, Gd;
    bool any = false;
    for (int i = 0; i < 3; ++i)
    {
        Ad[i] = (double)A[i];
        Dd[i] = (double)D[i];
        Gd[i] = (double)G[i];
        any = any || Ad[i] != 0 || Gd[i] != 0 || (fam == 8 && Dd[i] != 0);
    }
    if (!any)
        return false;
    if (fam == 7)
        out = SimpleQuadric(Ad, Gd, (double)J);
    else
        out = GeneralQuadric(Ad, Dd, Gd, (double)J);
    return true;
}

//---------------------------------------------------------------------------//
struct Pt
{
    double xp[3];  // point in the parent (transformed) frame
    LD porig[3];  // R^T (x' - t): the original point (long double)
    LD f;  // f_S(porig)
    LD noise;  // rounding chain bound (without simplifier snapping)
    LD mono;  // (1 + |x'|_1)^2
};

//---------------------------------------------------------------------------//
Verdict check_vector_ops(Choices& c, CaseLog& log, VariantTransform const& vt,
                         XfRef const& ref, Geom const& geo)
{
    // transform_up / down, rotate_up / down against the long-double products
    for (int rep = 0; rep < 2; ++rep)
    {
        LD u[3];
        unit_ld(c, u);
        LD rho = c.log_uniform(1e-3, 1e3);
        Real3 x;
        for (int i = 0; i < 3; ++i)
            x[i] = (double)(geo.centre[i] + geo.L * rho * u[i]);
        Real3 d{(double)u[0], (double)u[1], (double)u[2]};
        LD xl[3] = {x[0], x[1], x[2]};
        LD dl[3] = {d[0], d[1], d[2]};
        LD upx[3], downx[3];
        ref.up(xl, upx);
        ref.down(xl, downx);
        XfRef rot = ref;
        rot.t[0] = rot.t[1] = rot.t[2] = 0;
        LD upd[3], downd[3];
        rot.up(dl, upd);
        rot.down(dl, downd);
        LD scale = fabsl(xl[0]) + fabsl(xl[1]) + fabsl(xl[2]) + fabsl(ref.t[0])
                   + fabsl(ref.t[1]) + fabsl(ref.t[2]);
        LD tolx = 8 * eps * scale;
        LD told = 8 * eps;
        Real3 gu, gd, ru, rd, rt, rtd;
        std::visit(
            [&](auto const& t) {
                gu = t.transform_up(x);
                gd = t.transform_down(x);
                ru = t.rotate_up(d);
                rd = t.rotate_down(d);
                rt = t.transform_down(t.transform_up(x));
                rtd = t.rotate_down(t.rotate_up(d));
            },
            vt);
        for (int i = 0; i < 3; ++i)
        {
            if (!(fabsl(gu[i] - upx[i]) <= tolx))
                return log.fail("transform_up differs from R x + t: comp "
                                + std::to_string(i) + " got " + fmt(gu[i])
                                + " ref " + fmt(upx[i]));
            if (!(fabsl(gd[i] - downx[i]) <= tolx))
                return log.fail("transform_down differs from R^T (x - t): "
                                "comp "
                                + std::to_string(i) + " got " + fmt(gd[i])
                                + " ref " + fmt(downx[i]));
            if (!(fabsl(ru[i] - upd[i]) <= told))
                return log.fail("rotate_up differs from R d: comp "
                                + std::to_string(i) + " got " + fmt(ru[i])
                                + " ref " + fmt(upd[i]));
            if (!(fabsl(rd[i] - downd[i]) <= told))
                return log.fail("rotate_down differs from R^T d: comp "
                                + std::to_string(i) + " got " + fmt(rd[i])
                                + " ref " + fmt(downd[i]));
            // round trips (R is orthonormal to a few eps by construction)
            if (!(fabsl((LD)rt[i] - xl[i]) <= 4 * tolx))
                return log.fail("transform_down(transform_up(x)) != x: comp "
                                + std::to_string(i) + " got " + fmt(rt[i])
                                + " x " + fmt(xl[i]));
            if (!(fabsl((LD)rtd[i] - dl[i]) <= 4 * told))
                return log.fail("rotate_down(rotate_up(d)) != d: comp "
                                + std::to_string(i) + " got " + fmt(rtd[i])
                                + " d " + fmt(dl[i]));
        }
        // calc_inverse: inverse.up == down, and composes to the identity
        VariantTransform inv = calc_inverse(vt);
        Real3 iu, comp_a, comp_b;
        std::visit([&](auto const& t) { iu = t.transform_up(x); }, inv);
        VariantTransform ab = apply_transform(vt, inv);
        VariantTransform ba = apply_transform(inv, vt);
        std::visit([&](auto const& t) { comp_a = t.transform_up(x); }, ab);
        std::visit([&](auto const& t) { comp_b = t.transform_up(x); }, ba);
        for (int i = 0; i < 3; ++i)
        {
            if (!(fabsl(iu[i] - downx[i]) <= 4 * tolx))
                return log.fail("calc_inverse().transform_up != "
                                "transform_down: comp "
                                + std::to_string(i) + " got " + fmt(iu[i])
                                + " ref " + fmt(downx[i]));
            if (!(fabsl((LD)comp_a[i] - xl[i]) <= 8 * tolx)
                || !(fabsl((LD)comp_b[i] - xl[i]) <= 8 * tolx))
                return log.fail("T * T^-1 is not the identity: comp "
                                + std::to_string(i) + " got " + fmt(comp_a[i])
                                + " / " + fmt(comp_b[i]) + " x "
                                + fmt(xl[i]));
        }
    }
    log.count("vector_ops_checked", 2);
    return Verdict::pass;
}

//---------------------------------------------------------------------------//
// Transform generation.  Returns the variant and a label.
bool gen_transform(Choices& c, CaseLog& log, VariantTransform& vt,
                   char const*& label, bool& identity_like)
{
    int kind = int(c.pick({22, 24, 16, 10, 10, 12, 6}));
    log.mix(kind);
    Real3 t{coord(c, 1e-3, 1e3, 0.25, 0.1), coord(c, 1e-3, 1e3, 0.25, 0.1),
            coord(c, 1e-3, 1e3, 0.25, 0.1)};
    for (int i = 0; i < 3; ++i)
        log.mix(t[i]);
    log.dv("translation", t.data(), 3);
    identity_like = false;
    auto to_mat = [](LD const R[3][3]) {
        SquareMatrixReal3 m;
        for (int i = 0; i < 3; ++i)
            for (int j = 0; j < 3; ++j)
                m[i][j] = (double)R[i][j];
        return m;
    };
    switch (kind)
    {
        case 0: {
            label = "xf-translation";
            vt = Translation{t};
            identity_like = (t[0] == 0 && t[1] == 0 && t[2] == 0);
            return true;
        }
        case 1: {
            label = "xf-rotation";
            LD R[3][3];
            gen_rotation(c, R);
            vt = Transformation{to_mat(R), t};
            return true;
        }
        case 2: {
            // signed permutation -> Transformation
            label = "xf-permutation";
            SignedPermutation sp;
            if (c.boolean(0.5))
            {
                int ax = int(c.int_in(0, 2));
                int q = int(c.int_in(0, 7)) - 4;
                log.mix(ax);
                log.mix(q);
                sp = make_permutation(to_axis(ax), QuarterTurn{q});
                // oracle: rotation by q quarter turns about ax
                SquareMatrixReal3 m = make_rotation(to_axis(ax),
                                                    Turn{0.25 * q});
                LD axv[3] = {0, 0, 0};
                axv[ax] = 1;
                LD R[3][3];
                rodrigues(axv, q * pi_ld / 2, R);
                Transformation tfp = perm_matrix(sp);
                for (int i = 0; i < 3; ++i)
                    for (int j = 0; j < 3; ++j)
                    {
                        LD r = roundl(R[i][j]);
                        if ((LD)tfp.rotation()[i][j] != r)
                        {
                            log.fail("make_permutation(" + std::to_string(ax)
                                     + ", " + std::to_string(q)
                                     + ") matrix differs from a rotation by "
                                       "q quarter turns at ["
                                     + std::to_string(i) + "]["
                                     + std::to_string(j) + "]");
                            return false;
                        }
                        if (fabsl((LD)m[i][j] - r) > 4 * eps)
                        {
                            log.fail("make_rotation(axis, quarter turns) is "
                                     "not the exact permutation matrix");
                            return false;
                        }
                    }
            }
            else
            {
                // explicit signed axes; determinant -1 must be rejected
                int p = int(c.int_in(0, 5));
                int s = int(c.int_in(0, 7));
                // (exceptions are very slow under ASan: exercise the
                // rejection of reflections in ~3% of these cases only)
                bool allow_invalid = c.boolean(0.06);
                {
                    int par = (p < 3 ? 0 : 1) + (s & 1) + ((s >> 1) & 1)
                              + ((s >> 2) & 1);
                    if ((par & 1) && !allow_invalid)
                        s ^= 1;
                }
                log.mix(p);
                log.mix(s);
                static int const perms[6][3] = {{0, 1, 2},
                                                {1, 2, 0},
                                                {2, 0, 1},
                                                {0, 2, 1},
                                                {2, 1, 0},
                                                {1, 0, 2}};
                SignedPermutation::SignedAxes ax;
                int det = (p < 3) ? 1 : -1;
                for (int i = 0; i < 3; ++i)
                {
                    bool neg = (s >> i) & 1;
                    if (neg)
                        det = -det;
                    ax[to_axis(i)] = {neg ? '-' : '+', to_axis(perms[p][i])};
                }
                try
                {
                    sp = SignedPermutation{ax};
                }
                catch (RuntimeError const&)
                {
                    if (det == 1)
                        log.fail("SignedPermutation rejected a proper "
                                 "rotation");
                    else
                        label = "xf-permutation-rejected";
                    return false;
                }
                if (det != 1)
                {
                    log.fail("SignedPermutation accepted a reflection "
                             "(determinant -1)");
                    return false;
                }
                // round trip of the compressed form and of data()
                auto back = sp.permutation();
                for (int i = 0; i < 3; ++i)
                    if (back[to_axis(i)] != ax[to_axis(i)])
                    {
                        log.fail("SignedPermutation::permutation() does not "
                                 "round-trip");
                        return false;
                    }
                auto dat = sp.data();
                SignedPermutation sp2{SignedPermutation::StorageSpan{
                    dat.data(), 1}};
                if (sp2 != sp)
                {
                    log.fail("SignedPermutation data() does not round-trip");
                    return false;
                }
                // explicit matrix: row i has sign at column perm[i]
                Transformation tfp = perm_matrix(sp);
                for (int i = 0; i < 3; ++i)
                    for (int j = 0; j < 3; ++j)
                    {
                        double e = (j == perms[p][i])
                                       ? (((s >> i) & 1) ? -1.0 : 1.0)
                                       : 0.0;
                        if (tfp.rotation()[i][j] != e)
                        {
                            log.fail("Transformation(SignedPermutation) "
                                     "matrix differs from the signed axes");
                            return false;
                        }
                    }
            }
            // SignedPermutation rotate/transform agree with the matrix
            Transformation tfp = perm_matrix(sp);
            LD u[3];
            unit_ld(c, u);
            Real3 d{(double)u[0], (double)u[1], (double)u[2]};
            Real3 a1 = sp.rotate_up(d), a2 = tfp.rotate_up(d);
            Real3 b1 = sp.rotate_down(d), b2 = tfp.rotate_down(d);
            Real3 c1 = sp.transform_up(d), c2 = sp.transform_down(d);
            for (int i = 0; i < 3; ++i)
                if (a1[i] != a2[i] || b1[i] != b2[i] || c1[i] != a1[i]
                    || c2[i] != b1[i])
                {
                    log.fail("SignedPermutation rotate_up/down differs from "
                             "its matrix form");
                    return false;
                }
            vt = Transformation{tfp.rotation(), t};
            identity_like = false;
            return true;
        }
        case 3: {
            label = "xf-reflection";
            LD R[3][3];
            gen_rotation(c, R);
            int k = int(c.int_in(0, 2));
            for (int j = 0; j < 3; ++j)
                R[k][j] = -R[k][j];
            vt = Transformation{to_mat(R), t};
            return true;
        }
        case 4: {
            label = "xf-small-angle";
            LD ax[3];
            unit_ld(c, ax);
            LD ang = c.signed_log_uniform(1e-12, 1e-3);
            LD R[3][3];
            rodrigues(ax, ang, R);
            vt = Transformation{to_mat(R), t};
            return true;
        }
        case 5: {
            // make_rotation(axis, turn) API
            label = "xf-make-rotation";
            LD ax[3];
            unit_ld(c, ax);
            double turn = c.boolean(0.3) ? 0.125 * double(c.int_in(0, 4))
                                         : c.real_in(0, 0.5);
            log.mix(turn);
            Real3 axd{(double)ax[0], (double)ax[1], (double)ax[2]};
            SquareMatrixReal3 m = make_rotation(axd, Turn{turn});
            LD axl[3] = {axd[0], axd[1], axd[2]};
            LD R[3][3];
            rodrigues(axl, 2 * pi_ld * (LD)turn, R);
            for (int i = 0; i < 3; ++i)
                for (int j = 0; j < 3; ++j)
                    if (!(fabsl((LD)m[i][j] - R[i][j]) <= 16 * eps))
                    {
                        log.fail("make_rotation(axis, turn) differs from the "
                                 "Rodrigues formula at ["
                                 + std::to_string(i) + "][" + std::to_string(j)
                                 + "]: got " + fmt(m[i][j]) + " ref "
                                 + fmt(R[i][j]));
                        return false;
                    }
            if (c.boolean(0.5))
            {
                // compose with a cartesian-axis rotation
                int a2 = int(c.int_in(0, 2));
                double t2 = c.real_in(-1, 1);
                log.mix(a2);
                log.mix(t2);
                SquareMatrixReal3 m2 = make_rotation(to_axis(a2), Turn{t2}, m);
                LD e2[3] = {0, 0, 0};
                e2[a2] = 1;
                LD R2[3][3];
                rodrigues(e2, 2 * pi_ld * (LD)t2, R2);
                for (int i = 0; i < 3; ++i)
                    for (int j = 0; j < 3; ++j)
                    {
                        LD r = 0;
                        for (int k = 0; k < 3; ++k)
                            r += R2[i][k] * (LD)m[k][j];
                        if (!(fabsl((LD)m2[i][j] - r) <= 16 * eps))
                        {
                            log.fail("make_rotation(Axis, turn, M) differs "
                                     "from R_axis * M");
                            return false;
                        }
                    }
                m = m2;
            }
            LD det = determinant(m);
            if (!(fabsl(det - 1) <= 32 * eps))
            {
                log.fail("make_rotation determinant " + fmt(det));
                return false;
            }
            vt = Transformation{m, t};
            return true;
        }
        default: {
            // orthonormalize a low-precision matrix
            label = "xf-orthonormalized";
            LD R[3][3];
            gen_rotation(c, R);
            SquareMatrixReal3 m;
            LD pert = c.log_uniform(1e-9, 1e-3);
            for (int i = 0; i < 3; ++i)
                for (int j = 0; j < 3; ++j)
                    m[i][j] = (double)(R[i][j]
                                       + pert * (LD)c.real_in(-1, 1));
            SquareMatrixReal3 orig = m;
            orthonormalize(&m);
            for (int i = 0; i < 3; ++i)
                for (int j = 0; j < 3; ++j)
                {
                    LD dot = 0;
                    for (int k = 0; k < 3; ++k)
                        dot += (LD)m[i][k] * m[j][k];
                    if (!(fabsl(dot - (i == j ? 1 : 0)) <= 64 * eps))
                    {
                        log.fail("orthonormalize: rows " + std::to_string(i)
                                 + "," + std::to_string(j) + " dot = "
                                 + fmt(dot));
                        return false;
                    }
                    if (!(fabsl((LD)m[i][j] - orig[i][j]) <= 8 * pert))
                    {
                        log.fail("orthonormalize moved an entry by more "
                                 "than the input perturbation");
                        return false;
                    }
                }
            vt = Transformation{m, t};
            return true;
        }
    }
}

//---------------------------------------------------------------------------//
Verdict k_quadric(Choices& c, CaseLog& log)
{
    VariantSurface S{PlaneAligned<Axis::x>{0.0}};
    Geom geo;
    if (!gen_surface(c, log, S, geo))
        return Verdict::trivial;
    Q4 const qS = std::visit(ToQ4{}, S);
    {
        auto dat = std::visit(
            [](auto const& s) {
                auto sp = s.data();
                return std::vector<double>(sp.begin(), sp.end());
            },
            S);
        for (double v : dat)
            log.mix(v);
        log.ds("surface", type_name(S));
        log.dv("data", dat.data(), int(dat.size()));
    }
    log.label(intern(std::string("in-") + type_name(S)));

    VariantTransform vt;
    char const* xlabel = "";
    bool identity_like = false;
    if (!gen_transform(c, log, vt, xlabel, identity_like))
    {
        if (!log.msg.empty())
            return Verdict::violation;
        log.label(xlabel);
        return Verdict::rejected;
    }
    log.label(xlabel);
    XfRef ref = ref_of(vt);
    if (log.want_desc)
    {
        double r9[9];
        for (int i = 0; i < 9; ++i)
            r9[i] = (double)ref.R[i / 3][i % 3];
        log.dv("rotation", r9, 9);
    }

    if (check_vector_ops(c, log, vt, ref, geo) == Verdict::violation)
        return Verdict::violation;

    //// TransformSimplifier ////
    {
        static double const tols[] = {1e-6, 1.5e-8, 1e-10};
        double tsim = tols[c.int_in(0, 2)];
        VariantTransform vs
            = std::visit(TransformSimplifier{Tolerance<>::from_relative(tsim)},
                         vt);
        if (vs.index() != vt.index())
        {
            log.label(intern(std::string("tsimp-")
                             + std::to_string(vt.index()) + "to"
                             + std::to_string(vs.index())));
            // displacement of a point at distance L from the origin is at
            // most tol * L (class documentation) + trace rounding (16 eps)
            LD u[3];
            unit_ld(c, u);
            LD rho = c.log_uniform(1e-2, 1e2);
            Real3 x{(double)(rho * u[0]), (double)(rho * u[1]),
                    (double)(rho * u[2])};
            Real3 a, b;
            std::visit([&](auto const& t) { a = t.transform_up(x); }, vt);
            std::visit([&](auto const& t) { b = t.transform_up(x); }, vs);
            LD dd[3] = {(LD)a[0] - b[0], (LD)a[1] - b[1], (LD)a[2] - b[2]};
            LD xn = sqrtl((LD)x[0] * x[0] + (LD)x[1] * x[1]
                          + (LD)x[2] * x[2]);
            LD lim = sqrtl((LD)tsim * tsim + 64 * eps) * (xn + 1) * 1.01L
                     + 16 * eps * (xn + 1);
            if (!(norm3(dd) <= lim))
                return log.fail("TransformSimplifier(tol " + fmt(tsim)
                                + ") moved a point at |x| = " + fmt(xn)
                                + " by " + fmt(norm3(dd)));
            log.count("tsimplified");
        }
        else
        {
            // unchanged type must be unchanged data
            bool same = std::visit(
                [&](auto const& t) {
                    using T = std::decay_t<decltype(t)>;
                    if constexpr (std::is_same_v<T, NoTransformation>)
                        return true;
                    else
                        return t == std::get<T>(vt);
                },
                vs);
            if (!same)
                return log.fail("TransformSimplifier changed the data "
                                "without changing the type");
        }
    }

    //// Transformed surface ////
    VariantSurface S1 = apply_transform(vt, S);
    log.label(intern(std::string("xfd-") + type_name(S1)));
    static double const stols[] = {1e-10, 1.5e-8, 1e-6};
    double stol = stols[c.pick({50, 35, 15})];
    log.mix(stol);
    log.d("simplifier_tol", stol);

    if (std::getenv("C12_DEBUG"))
    {
        auto dat = std::visit(
            [](auto const& s) {
                auto sp = s.data();
                return std::vector<double>(sp.begin(), sp.end());
            },
            S1);
        std::fprintf(stderr, "DEBUG S1 %s tol %g:", type_name(S1), stol);
        for (double v : dat)
            std::fprintf(stderr, " %.17g", v);
        std::fprintf(stderr, "\n");
        dat = std::visit(
            [](auto const& s) {
                auto sp = s.data();
                return std::vector<double>(sp.begin(), sp.end());
            },
            S);
        std::fprintf(stderr, "DEBUG S %s:", type_name(S));
        for (double v : dat)
            std::fprintf(stderr, " %.17g", v);
        std::fprintf(stderr, "\n");
    }
    Sense fsense = Sense::inside;
    VariantSurface S2 = S1;
    bool const deg1 = simplifier_degenerate(S1, stol);
    if (!deg1)
    {
        auto store = [&](Sense s, auto const& surf) {
            fsense = s;
            S2 = surf;
        };
        RecursiveSimplifier<decltype(store)&> simp(store, stol);
        simp(Sense::inside, S1);
    }
    else
        log.label("skip-degenerate-quadric");
    bool flipped = (fsense != Sense::inside);
    log.label(intern(std::string("simp-") + type_name(S1) + "->"
                     + type_name(S2) + (flipped ? "-flip" : "")));

    // Also: simplify the original surface directly
    Sense fsense0 = Sense::inside;
    VariantSurface S0s = S;
    if (!simplifier_degenerate(S, stol))
    {
        auto store = [&](Sense s, auto const& surf) {
            fsense0 = s;
            S0s = surf;
        };
        RecursiveSimplifier<decltype(store)&> simp(store, stol);
        simp(Sense::inside, S);
    }
    bool flipped0 = (fsense0 != Sense::inside);
    if (S0s.index() != S.index())
        log.label(intern(std::string("simp0-") + type_name(S) + "->"
                         + type_name(S0s)));

    // inverse transform of the transformed surface: back in the original
    // frame
    VariantTransform vinv = calc_inverse(vt);
    VariantSurface S3 = apply_transform(vinv, S1);
    Q4 const qS1 = std::visit(ToQ4{}, S1);
    XfRef refinv = ref_of(vinv);
    XfRef ident;

    LD const cmaxS = qS.max_coef();
    LD const cmaxS1 = qS1.max_coef();

    // Known finding F12: SurfaceTranslator(SimpleQuadric) computes the new
    // constant with '- 2 * first[i] * origin[i]' (must be '- first[i] *
    // origin[i]'); wrong whenever first . t != 0.  Exact input class only.
    std::string known_key;
    if (auto const* sq = std::get_if<SimpleQuadric>(&S))
    {
        if (auto const* tl = std::get_if<Translation>(&vt))
        {
            bool hit = false;
            for (int i = 0; i < 3; ++i)
                hit = hit || (sq->first()[i] * tl->translation()[i] != 0);
            if (hit)
                known_key = "F26-sq-translate-constant-term";
        }
    }

    // ... and the inverse translation of the (SimpleQuadric) result
    std::string known_key_inv = known_key;
    if (auto const* sq = std::get_if<SimpleQuadric>(&S1))
    {
        if (auto const* tl = std::get_if<Translation>(&vinv))
        {
            bool hit = false;
            for (int i = 0; i < 3; ++i)
                hit = hit || (sq->first()[i] * tl->translation()[i] != 0);
            if (hit)
                known_key_inv = "F26-sq-translate-constant-term";
        }
    }

    int n_in = 0, n_out = 0;
    int const npts = 6;
    for (int k = 0; k < npts; ++k)
    {
        // original-frame point: near the surface or anywhere
        LD u[3];
        unit_ld(c, u);
        LD p[3];
        int mode = int(c.pick({40, 30, 30}));
        LD rho = mode == 0 ? c.log_uniform(1e-3, 1.0)
                           : c.log_uniform(1.0, 1e2);
        for (int i = 0; i < 3; ++i)
            p[i] = geo.centre[i] + geo.L * rho * u[i];
        if (mode == 2)
        {
            // move onto the surface along a random line, then off by delta
            LD e[3];
            unit_ld(c, e);
            LD f0 = qS.eval(p);
            LD pe[3] = {p[0] + e[0], p[1] + e[1], p[2] + e[2]};
            LD pm[3] = {p[0] - e[0], p[1] - e[1], p[2] - e[2]};
            LD f1 = qS.eval(pe), fm = qS.eval(pm);
            LD a = (f1 + fm) / 2 - f0, b = (f1 - fm) / 2;
            LD s = 0;
            bool ok = false;
            if (a != 0)
            {
                LD disc = b * b - 4 * a * f0;
                if (disc >= 0)
                {
                    LD sq = sqrtl(disc);
                    LD qq = -(b + (b >= 0 ? sq : -sq)) / 2;
                    LD r1 = qq / a, r2 = qq != 0 ? f0 / qq : r1;
                    s = fabsl(r1) < fabsl(r2) ? r1 : r2;
                    ok = true;
                }
            }
            else if (b != 0)
            {
                s = -f0 / b;
                ok = true;
            }
            if (ok)
            {
                LD delta = (LD)c.signed_log_uniform(1e-9, 1e-1) * geo.L;
                for (int i = 0; i < 3; ++i)
                    p[i] += (s + delta) * e[i];
            }
        }
        Pt pt;
        LD xp[3];
        ref.up(p, xp);
        LD xpl[3];
        LD a1 = 1;
        for (int i = 0; i < 3; ++i)
        {
            pt.xp[i] = (double)xp[i];
            xpl[i] = pt.xp[i];
            a1 += fabsl(xpl[i]);
            log.mix(pt.xp[i]);
            if (!std::isfinite(pt.xp[i]))
                return Verdict::trivial;
        }
        log.dv("xprime", pt.xp, 3);
        ref.down(xpl, pt.porig);
        pt.f = qS.eval(pt.porig);
        LD v[4];
        ref.chain_vec(xpl, v);
        pt.noise = KT * eps * qS.eval_abs(v);
        pt.mono = a1 * a1;
        Real3 const X{pt.xp[0], pt.xp[1], pt.xp[2]};
        int const want = pt.f > 0 ? 1 : -1;

        // (1) transformed surface
        if (fabsl(pt.f) > pt.noise)
        {
            SignedSense ss = sense_of(S1, X);
            if (int(ss) != want)
                return log.fail(
                    std::string("sense of transformed surface (")
                    + type_name(S) + " -> " + type_name(S1) + ") at x' is "
                    + std::to_string(int(ss)) + " but f_S(R^T(x'-t)) = "
                    + fmt(pt.f) + " (noise " + fmt(pt.noise) + ")",
                    known_key);
            (want > 0 ? n_out : n_in)++;
            log.count("sense_xf_checked");
        }
        else
            log.count("sense_xf_in_noise");

        // (2) transformed + recursively simplified surface
        LD snap1 = 64 * (LD)stol * (1 + cmaxS1) * pt.mono;
        if (fabsl(pt.f) > 2 * pt.noise + snap1)
        {
            // f_S and f_S1 are the same function of the point (rigid
            // transform), so the snapping bound in S1's coefficients applies
            SignedSense ss = sense_of(S2, X);
            int got = int(ss) * (flipped ? -1 : 1);
            if (got != want)
                return log.fail(
                    std::string("sense after simplification (")
                    + type_name(S1) + " -> " + type_name(S2)
                    + (flipped ? ", sense flipped" : "") + ", tol "
                    + fmt(stol) + ") at x' is " + std::to_string(int(ss))
                    + " but f_S(R^T(x'-t)) = " + fmt(pt.f) + " (noise "
                    + fmt(2 * pt.noise + snap1) + ")",
                    known_key);
            log.count("sense_simplified_checked");
        }
        else
            log.count("sense_simplified_in_noise");

        // (3) original surface simplified directly, evaluated at the
        //     original point (rounded to double)
        {
            Real3 P{(double)pt.porig[0], (double)pt.porig[1],
                    (double)pt.porig[2]};
            LD Pl[3] = {P[0], P[1], P[2]};
            LD f0 = qS.eval(Pl);
            LD v0[4];
            ident.chain_vec(Pl, v0);
            LD m0 = (1 + fabsl(Pl[0]) + fabsl(Pl[1]) + fabsl(Pl[2]));
            LD lim = 2 * KT * eps * qS.eval_abs(v0)
                     + 64 * (LD)stol * (1 + cmaxS) * m0 * m0;
            if (fabsl(f0) > lim)
            {
                SignedSense ss = sense_of(S0s, P);
                int got = int(ss) * (flipped0 ? -1 : 1);
                if (got != (f0 > 0 ? 1 : -1))
                    return log.fail(
                        std::string("sense after simplifying the original (")
                        + type_name(S) + " -> " + type_name(S0s)
                        + (flipped0 ? ", sense flipped" : "") + ", tol "
                        + fmt(stol) + ") is " + std::to_string(int(ss))
                        + " but f_S(p) = " + fmt(f0));
                log.count("sense_simp0_checked");
            }

            // (4) inverse transform of the transformed surface at p
            LD vinvv[4];
            refinv.chain_vec(Pl, vinvv);
            // (R is orthonormal only to a few eps, so T^-1 T differs from the
            // identity by ~eps (|x| + |t|): last term)
            LD tn = fabsl(ref.t[0]) + fabsl(ref.t[1]) + fabsl(ref.t[2]);
            LD sn = fabsl(Pl[0]) + fabsl(Pl[1]) + fabsl(Pl[2]) + tn;
            LD vt[4] = {1, sn, sn, sn};
            LD lim3 = 2 * pt.noise + 2 * KT * eps * qS1.eval_abs(vinvv)
                      + 2 * KT * eps * qS.eval_abs(v0)
                      + 2 * KT * eps * qS.eval_abs(vt);
            if (fabsl(f0) > lim3)
            {
                SignedSense ss = sense_of(S3, P);
                if (int(ss) != (f0 > 0 ? 1 : -1))
                    return log.fail(
                        std::string("sense of T^-1(T(S)) (") + type_name(S)
                        + " -> " + type_name(S1) + " -> " + type_name(S3)
                        + ") at p is " + std::to_string(int(ss))
                        + " but f_S(p) = " + fmt(f0) + " (noise "
                        + fmt(lim3) + ")",
                        known_key_inv);
                log.count("sense_roundtrip_checked");
            }
        }
    }
    log.nontrivial = !identity_like && n_in > 0 && n_out > 0;
    return Verdict::pass;
}

//---------------------------------------------------------------------------//
// Involute: only translation is implemented (SurfaceTransformer throws
// "not implemented").  Reference sense as in c12_surf.cc (class doc of
// Involute::calc_sense): frame with x mirrored for Chirality::right, A =
// stored displacement angle; inside iff tmin <= t_p <= tmax and
// 0 < (theta - t_p - A mod 2pi) < tmax - t_p.
constexpr LD two_pi = 2 * pi_ld;
struct InvRef
{
    LD rb, A, tmin, tmax;
};
struct InvSense
{
    int sense;
    bool ok;
};
InvSense inv_sense(InvRef const& r, LD X, LD Y)
{
    LD q = (X * X + Y * Y) / (r.rb * r.rb);
    LD tp2 = q - 1;
    LD mr = 1e-9L * (1 + q);
    bool ok = !(fabsl(tp2 - r.tmin * r.tmin) < mr
                || fabsl(tp2 - r.tmax * r.tmax) < mr);
    if (tp2 < r.tmin * r.tmin || tp2 > r.tmax * r.tmax)
        return {+1, ok};
    if (tp2 < 1e-8L)
        return {+1, false};
    LD tp = sqrtl(tp2);
    LD theta = atan2l(Y, X) + atanl(tp);
    LD psi = fmodl(theta - tp - r.A, two_pi);
    if (psi < 0)
        psi += two_pi;
    LD width = r.tmax - tp;
    LD ma = 1e-6L * (1 + tp + fabsl(r.A));
    if (psi < ma || two_pi - psi < ma || fabsl(psi - width) < ma)
        ok = false;
    return {(psi > 0 && psi < width) ? -1 : +1, ok};
}
// input class of known finding F14 (see c12_surf.cc)
bool f14_class(InvRef const& r, LD X, LD Y)
{
    if (!(r.A < 0))
        return false;
    LD tp2 = (X * X + Y * Y) / (r.rb * r.rb) - 1;
    if (tp2 <= 0)
        return false;
    LD th = fmodl(atan2l(Y, X) + atanl(sqrtl(tp2)), two_pi);
    if (th < 0)
        th += two_pi;
    return th > r.tmax + r.A;
}

Verdict k_involute(Choices& c, CaseLog& log)
{
    using Real2 = Involute::Real2;
    Real2 org{coord(c, 1e-2, 1e2, 0.35), coord(c, 1e-2, 1e2, 0.35)};
    double rb = c.log_uniform(1e-2, 1e2);
    double a = c.boolean(0.3) ? 0.25 * (double)two_pi * double(c.int_in(0, 3))
                              : c.real_in(0, 6.283185);
    bool right = c.boolean();
    double tmin = c.boolean(0.2) ? 0.0 : c.log_uniform(1e-2, 10);
    double tmax = tmin + c.real_in(0.05, 6.2769);
    Real3 t{coord(c, 1e-2, 1e2, 0.2), coord(c, 1e-2, 1e2, 0.2),
            coord(c, 1e-2, 1e2, 0.2)};
    for (double v : {org[0], org[1], rb, a, tmin, tmax, t[0], t[1], t[2]})
        log.mix(v);
    log.mix(int(right));
    log.ds("surface", "inv");
    log.dv("origin", org.data(), 2);
    log.d("r_b", rb);
    log.d("a", a);
    log.d("right", right);
    log.d("tmin", tmin);
    log.d("tmax", tmax);
    log.dv("translation", t.data(), 3);
    Involute s(org, rb, a, right ? Chirality::right : Chirality::left, tmin,
               tmax);
    log.label(right ? "in-inv-cw" : "in-inv-ccw");

    if (c.boolean(0.04))
    {
        // rotation of an involute is documented as not implemented
        LD R[3][3];
        gen_rotation(c, R);
        SquareMatrixReal3 m;
        for (int i = 0; i < 3; ++i)
            for (int j = 0; j < 3; ++j)
                m[i][j] = (double)R[i][j];
        log.label("xf-rotation-of-involute");
        try
        {
            (void)apply_transform(VariantTransform{Transformation{m, t}},
                                  VariantSurface{s});
        }
        catch (RuntimeError const&)
        {
            return Verdict::rejected;
        }
        return log.fail("rotating an Involute neither threw nor is "
                        "implemented");
    }

    log.label("xf-translation");
    VariantSurface S1v = apply_transform(VariantTransform{Translation{t}},
                                         VariantSurface{s});
    auto const* s1 = std::get_if<Involute>(&S1v);
    if (!s1)
        return log.fail("translated Involute is not an Involute");
    // recursive simplification must leave an involute alone
    {
        bool same = false;
        auto store = [&](Sense sn, auto const& surf) {
            using T = std::decay_t<decltype(surf)>;
            if constexpr (std::is_same_v<T, Involute>)
                same = (sn == Sense::inside);
        };
        RecursiveSimplifier<decltype(store)&> simp(store, 1e-8);
        simp(Sense::inside, S1v);
        if (!same)
            return log.fail("simplifier changed an Involute");
    }
    bool const data_changed
        = fabsl((LD)s1->displacement_angle() - s.displacement_angle())
              > 8 * eps
          || s1->r_b() != s.r_b() || s1->tmin() != s.tmin()
          || s1->tmax() != s.tmax() || s1->sign() != s.sign();
    // Known finding F15: SurfaceTranslator(Involute) passes the STORED angle
    // (pi - a for clockwise) back through the constructor, which mirrors it
    // again: the translated clockwise involute has displacement a instead of
    // pi - a.
    bool const f15 = right && data_changed && s1->r_b() == s.r_b()
                     && s1->tmin() == s.tmin() && s1->tmax() == s.tmax()
                     && s1->sign() == s.sign();

    InvRef ref{(LD)rb, (LD)s.displacement_angle(), (LD)tmin, (LD)tmax};
    LD const mir = right ? -1 : 1;
    int n_in = 0, n_out = 0;
    for (int k = 0; k < 6; ++k)
    {
        // original-frame point: on/near the curve or anywhere in the annulus
        LD X, Y;
        int mode = int(c.pick({50, 35, 15}));
        if (mode == 0)
        {
            LD t0 = (LD)tmin + ((LD)tmax - tmin) * (LD)c.real_in(1e-3, 0.999);
            LD delta = (LD)c.signed_log_uniform(1e-5, 3e-1) * rb * (1 + t0);
            LD sn = sinl(t0 + ref.A), cs = cosl(t0 + ref.A);
            X = rb * (cs + t0 * sn) + delta * sn;
            Y = rb * (sn - t0 * cs) - delta * cs;
        }
        else
        {
            LD tt = mode == 1
                        ? (LD)tmin + ((LD)tmax - tmin) * (LD)c.unit32()
                        : (LD)tmax * (LD)c.real_in(0, 3);
            LD rho = rb * sqrtl(1 + tt * tt);
            LD phi = two_pi * (LD)c.unit32();
            X = rho * cosl(phi);
            Y = rho * sinl(phi);
        }
        Real3 xp{(double)((LD)org[0] + mir * X + t[0]),
                 (double)((LD)org[1] + Y + t[1]), coord(c, 1e-2, 1e2, 0.3)};
        for (int i = 0; i < 3; ++i)
            log.mix(xp[i]);
        log.dv("xprime", xp.data(), 3);
        // original point = x' - t, in the reference frame
        LD Xo = mir * (((LD)xp[0] - t[0]) - org[0]);
        LD Yo = ((LD)xp[1] - t[1]) - org[1];
        InvSense e = inv_sense(ref, Xo, Yo);
        if (!e.ok)
        {
            log.count("inv_sense_in_margin");
            continue;
        }
        SignedSense ss = s1->calc_sense(xp);
        if (int(ss) != e.sense)
        {
            std::string key;
            if (f15)
                key = "F29-involute-cw-translate-angle";
            else if (e.sense < 0 && int(ss) > 0 && f14_class(ref, Xo, Yo))
                key = "F28-involute-cw-negative-angle-sense";
            return log.fail(
                "sense of translated involute at x' is "
                    + std::to_string(int(ss)) + " but the reference sense of "
                    + "the original at x' - t is " + std::to_string(e.sense)
                    + " (stored angle " + fmt(s.displacement_angle()) + " -> "
                    + fmt(s1->displacement_angle()) + ")",
                key);
        }
        (e.sense > 0 ? n_out : n_in)++;
        log.count("inv_sense_xf_checked");
    }
    if (data_changed)
        return log.fail("translated involute has different shape parameters "
                        "(angle "
                            + fmt(s.displacement_angle()) + " -> "
                            + fmt(s1->displacement_angle()) + ")",
                        f15 ? "F29-involute-cw-translate-angle" : "");
    log.nontrivial = n_in > 0 && n_out > 0;
    return Verdict::pass;
}

}  // namespace

Verdict run_case(Choices& c, CaseLog& log)
{
    try
    {
        if (c.boolean(0.1))
            return k_involute(c, log);
        return k_quadric(c, log);
    }
    catch (RuntimeError const& e)
    {
        log.label("runtime-error");
        return Verdict::rejected;
    }
}

bool run_exhaustive(ExhaustiveResult&)
{
    return false;
}

}  // namespace verif
