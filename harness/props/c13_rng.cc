// C13 — RNG skip-ahead equals sequential generation and streams never
// overlap; canonical reals lie in [0, 1).
//
// Oracle: oracle/xorwow_ref.hh (Marsaglia's recurrence transcribed from the
// paper, its 160x160 GF(2) transition matrix, powers by squaring).  The code
// under test is driven through its public interface only: the state
// collection is written before and read after each engine call.
#include <algorithm>
#include <array>
#include <cmath>
#include <cstdlib>
#include <cstdio>
#include <memory>
#include <string>
#include <vector>

#include "caselog.hh"
#include "xorwow_ref.hh"

#include "corecel/OpaqueId.hh"
#include "corecel/Types.hh"
#include "corecel/data/CollectionStateStore.hh"
#include "celeritas/Types.hh"
#include "celeritas/random/RngReseed.hh"
#include "celeritas/random/XorwowRngData.hh"
#include "celeritas/random/XorwowRngEngine.hh"
#include "celeritas/random/XorwowRngParams.hh"
#include "celeritas/random/detail/GenerateCanonical32.hh"
#include "celeritas/random/distribution/GenerateCanonical.hh"

namespace verif
{
char const* const kPropertyId = "C13";
char const* const kHarness = "c13_rng";
size_t const kMaxBytes = 48;  // longest decoder path (discard, dense state, log-uniform n) uses 41
char const* const kRule
    = "byte string -> (kind; 160-bit state: dense / one-hot / all-ones / "
      "single word / low weight, Weyl value; skip count n or subsequence "
      "count k: bit length uniform in 0..64, single jump polynomial j*4^i, "
      "sparse base-4 digits, boundary values; seed; (event id < 2^44, slot "
      "count, stream); generator outputs at the ends and at the float/double "
      "rounding boundaries). Oracle = Marsaglia recurrence + GF(2) matrix "
      "powers T^n, T^(k*2^67), exact integer Weyl arithmetic, literal "
      "drawing for n <= 2^12 (and 1 case in 8 up to 2^20). Non-trivial = "
      "non-zero state and (n or k >= 2^17, or a single-polynomial probe, or k >= 1 for subsequences; for "
      "reseeding: >= 2 slots and event >= 1; for canonical reals: a non-zero "
      "generator output)";

namespace
{
using namespace celeritas;
namespace xr = ::verif::xorwow_ref;
using Store = CollectionStateStore<XorwowRngStateData, MemSpace::host>;

std::unique_ptr<XorwowRngParams> g_params;
std::unique_ptr<Store> g_store;  // scratch states (4 slots)
std::unique_ptr<xr::JumpTable> g_tab;

// static label strings
std::array<std::string, 33> g_lbl_discard, g_lbl_subseq, g_lbl_reseed;

char const* const kF2 = "F2-canonical32-float-one";

//---------------------------------------------------------------------------//
std::string hex32(uint32_t v)
{
    char b[16];
    std::snprintf(b, sizeof b, "%08x", v);
    return b;
}
std::string hex64(uint64_t v)
{
    char b[24];
    std::snprintf(b, sizeof b, "0x%llx", (unsigned long long)v);
    return b;
}
std::string hexw(xr::Words const& w)
{
    std::string s;
    for (int i = 0; i < 5; ++i)
        s += (i ? " " : "") + hex32(w[i]);
    return s;
}

void put(XorwowState& st, xr::Words const& s, uint32_t d)
{
    for (int i = 0; i < 5; ++i)
        st.xorstate[i] = s[i];
    st.weylstate = d;
}
xr::Words words_of(XorwowState const& st)
{
    return xr::Words{st.xorstate[0],
                     st.xorstate[1],
                     st.xorstate[2],
                     st.xorstate[3],
                     st.xorstate[4]};
}
bool is_zero(xr::Words const& w)
{
    return !(w[0] | w[1] | w[2] | w[3] | w[4]);
}

XorwowState& slot(int i)
{
    return g_store->ref().state[TrackSlotId{TrackSlotId::size_type(i)}];
}
XorwowRngEngine engine(int i)
{
    return XorwowRngEngine(g_params->host_ref(),
                           g_store->ref(),
                           TrackSlotId{TrackSlotId::size_type(i)});
}

int bitlen(uint64_t v)
{
    return v ? 64 - __builtin_clzll(v) : 0;
}
// index of the highest jump polynomial used by a count (0 = none, else 1+i)
int top_poly(uint64_t v)
{
    return v ? 1 + (bitlen(v) - 1) / 2 : 0;
}

//---------------------------------------------------------------------------//
// Generators
//---------------------------------------------------------------------------//
struct GenState
{
    xr::Words s;
    uint32_t d;
    char const* cls;
};

GenState gen_state(Choices& c, CaseLog& log)
{
    // minimal (all-zero bytes) = the seeds printed in Marsaglia's paper
    static xr::Words const paper
        = {123456789u, 362436069u, 521288629u, 88675123u, 5783321u};
    GenState g;
    g.s = {0, 0, 0, 0, 0};
    switch (c.pick({6, 1.5, 0.5, 1, 1, 0.25}))
    {
        case 0:
            g.cls = "state:dense";
            for (int i = 0; i < 5; ++i)
                g.s[i] = paper[i] ^ uint32_t(c.bits(4));
            break;
        case 1: {
            g.cls = "state:one-hot";
            int b = int(c.int_in(0, 159));
            g.s[b / 32] = 1u << (b % 32);
            break;
        }
        case 2:
            g.cls = "state:all-ones";
            g.s = {~0u, ~0u, ~0u, ~0u, ~0u};
            break;
        case 3: {
            g.cls = "state:single-word";
            int w = int(c.int_in(0, 4));
            g.s[w] = 1u + uint32_t(c.int_in(0, 0xfffffffe));
            break;
        }
        case 4: {
            g.cls = "state:low-weight";
            int nb = int(c.int_in(2, 4));
            for (int i = 0; i < nb; ++i)
            {
                int b = int(c.int_in(0, 159));
                g.s[b / 32] |= 1u << (b % 32);
            }
            break;
        }
        default:
            // outside the property's quantifier (fixed point of T); the
            // linear identities still hold; counted as trivial
            g.cls = "state:zero";
            break;
    }
    if (is_zero(g.s) && std::string(g.cls) != "state:zero")
        g.s[0] = 1;
    static uint32_t const dspecial[]
        = {0u, 1u, 0xffffffffu, 0x80000000u, 0u - 362437u, 0x7fffffffu, 6615241u};
    if (c.boolean(0.25))
        g.d = dspecial[c.index(sizeof dspecial / sizeof *dspecial)];
    else
        g.d = 6615241u ^ uint32_t(c.bits(4));
    for (int i = 0; i < 5; ++i)
        log.mix(g.s[i]);
    log.mix(g.d);
    log.label(g.cls);
    log.ds("xorstate", hexw(g.s));
    log.ds("weyl", hex32(g.d));
    return g;
}

struct GenCount
{
    uint64_t n;
    bool single_poly;
};

// skip / subsequence count
GenCount gen_count(Choices& c, CaseLog& log, char const* what)
{
    GenCount g{0, false};
    switch (c.pick({4, 3, 2, 1}))
    {
        case 0:
            g.n = c.log_u64();
            log.label("count:log-uniform");
            break;
        case 1: {
            int i = int(c.int_in(0, 31));
            int j = int(c.int_in(1, 3));
            g.n = uint64_t(j) << (2 * i);
            g.single_poly = true;
            log.label("count:single-poly");
            break;
        }
        case 2: {
            int nd = int(c.int_in(2, 4));
            for (int d = 0; d < nd; ++d)
            {
                int i = int(c.int_in(0, 31));
                uint64_t j = uint64_t(c.int_in(1, 3));
                g.n = (g.n & ~(uint64_t(3) << (2 * i))) | (j << (2 * i));
            }
            log.label("count:sparse-digits");
            break;
        }
        default: {
            static uint64_t const sp[] = {0ull,
                                          1ull,
                                          2ull,
                                          3ull,
                                          4ull,
                                          0xffffffffffffffffull,
                                          0x8000000000000000ull,
                                          0xffffffffull,
                                          0x100000000ull,
                                          0x100000001ull,
                                          0xaaaaaaaaaaaaaaaaull,
                                          0x5555555555555555ull,
                                          0xfffffull,
                                          0x100000ull,
                                          0x1ffffull,
                                          0x20000ull,
                                          0xc000000000000000ull,
                                          0xfffffffffffffffeull};
            g.n = sp[c.index(sizeof sp / sizeof *sp)];
            log.label("count:boundary");
            break;
        }
    }
    log.mix(g.n);
    log.ds(what, hex64(g.n));
    return g;
}

std::string state_msg(char const* what,
                      xr::Words const& got,
                      uint32_t gotd,
                      xr::Words const& ref,
                      uint32_t refd)
{
    return std::string(what) + ": engine state [" + hexw(got) + " | "
           + hex32(gotd) + "] != reference [" + hexw(ref) + " | " + hex32(refd)
           + "]";
}

//---------------------------------------------------------------------------//
// Canonical reals: oracle
//---------------------------------------------------------------------------//
// A real in [0,1) made from one 32-bit sample x must approximate x / 2^32
// to within the spacing of floats below one (2^-24): truncating the sample to
// 24 bits is off by < 2^-24, rounding by <= 2^-25.
struct CanonVerdict
{
    bool ok;
    bool is_f2;
    std::string msg;
};

CanonVerdict judge_float(uint32_t x, float r)
{
    CanonVerdict v{true, false, {}};
    if (std::isnan(r) || !(r >= 0.0f) || !(r < 1.0f))
    {
        v.ok = false;
        v.is_f2 = (r == 1.0f && x > 0xffffff7fu);
        char b[160];
        std::snprintf(b,
                      sizeof b,
                      "GenerateCanonical32<float>: generator output 0x%08x "
                      "-> %.9g, outside [0, 1)",
                      x,
                      double(r));
        v.msg = b;
        return v;
    }
    double exact = double(x) * 0x1p-32;
    if (std::fabs(double(r) - exact) > 0x1p-24)
    {
        v.ok = false;
        char b[160];
        std::snprintf(b,
                      sizeof b,
                      "GenerateCanonical32<float>: output 0x%08x -> %.9g "
                      "differs from x/2^32 = %.12g by more than 2^-24",
                      x,
                      double(r),
                      exact);
        v.msg = b;
    }
    return v;
}

CanonVerdict judge_double(uint32_t upper, uint32_t lower, double r)
{
    CanonVerdict v{true, false, {}};
    char b[200];
    if (std::isnan(r) || !(r >= 0.0) || !(r < 1.0))
    {
        v.ok = false;
        std::snprintf(b,
                      sizeof b,
                      "GenerateCanonical32<double>: outputs (0x%08x, 0x%08x) "
                      "-> %.17g, outside [0, 1)",
                      upper,
                      lower,
                      r);
        v.msg = b;
        return v;
    }
    // documented construction: 53 bits = (upper << 21) ^ lower, times 2^-53
    uint64_t bits53 = (uint64_t(upper) << 21) ^ uint64_t(lower);
    long double exact = ldexpl((long double)bits53, -53);
    if ((long double)r != exact)
    {
        v.ok = false;
        std::snprintf(b,
                      sizeof b,
                      "GenerateCanonical32<double>: outputs (0x%08x, 0x%08x) "
                      "-> %.17g, documented 53-bit construction gives %.17Lg",
                      upper,
                      lower,
                      r,
                      exact);
        v.msg = b;
    }
    return v;
}

// Minimal 32-bit generator returning prescribed outputs
struct SeqGen
{
    using result_type = uint32_t;
    uint32_t v[2];
    int calls = 0;
    static constexpr result_type min() { return 0u; }
    static constexpr result_type max() { return 0xffffffffu; }
    result_type operator()() { return v[(calls++) & 1]; }
};

uint32_t gen_output(Choices& c)
{
    static uint32_t const sp[] = {0u,
                                  1u,
                                  0x7ffu,
                                  0x800u,
                                  0x1fffffu,
                                  0x200000u,
                                  0xffffffu,
                                  0x1000000u,
                                  0x1000001u,
                                  0x7fffffffu,
                                  0x80000000u,
                                  0xfffffe00u,
                                  0xffffff00u,
                                  0xffffff7fu,
                                  0xffffff80u,
                                  0xfffffffeu,
                                  0xffffffffu};
    if (c.boolean(0.5))
    {
        uint32_t b = sp[c.index(sizeof sp / sizeof *sp)];
        int off = int(c.int_in(0, 4)) - 2;
        return b + uint32_t(off);  // wraps at the ends: still a valid output
    }
    return uint32_t(c.bits(4));
}

//---------------------------------------------------------------------------//
// kind 0: operator() == one step of the reference recurrence; canonical
// reals drawn through the real engine
//---------------------------------------------------------------------------//
Verdict k_step(Choices& c, CaseLog& log)
{
    log.label("step");
    log.d("kind", "\"step\"");
    GenState g = gen_state(c, log);
    int m = int(c.int_in(1, 16));
    int canon = int(c.pick({2, 1, 1}));  // none / float / double
    bool aim = canon && c.boolean(0.6);
    uint32_t target = aim ? gen_output(c) : 0;
    log.mix(m);
    log.mix(canon);
    log.d("draws", m);
    log.d("canonical", canon);

    xr::RefState ref{g.s, g.d};
    if (aim)
    {
        // choose the Weyl value such that output number m+1 is `target`
        xr::Words w = g.s;
        for (int i = 0; i <= m; ++i)
            w = xr::next_words(w);
        ref.d = target - uint32_t(m + 1) * xr::weyl_increment - w[4];
        log.mix(target);
        log.ds("aimed_output", hex32(target));
        log.ds("weyl_used", hex32(ref.d));
    }
    put(slot(0), ref.s, ref.d);
    auto eng = engine(0);
    for (int i = 0; i < m; ++i)
    {
        uint32_t out = eng();
        uint32_t rout = xr::step(ref);
        auto got = words_of(slot(0));
        if (got != ref.s || slot(0).weylstate != ref.d)
            return log.fail(state_msg("operator() state after draw",
                                      got,
                                      slot(0).weylstate,
                                      ref.s,
                                      ref.d));
        if (out != rout)
            return log.fail("operator() returned " + hex32(out)
                            + ", reference (d += 362437) + v = " + hex32(rout));
    }
    if (canon == 1)
    {
        log.label("engine-canonical-float");
        uint32_t x = xr::step(ref);
        if (aim && x != target)
            return log.fail("harness: aimed output not produced");
        float r = generate_canonical<float>(eng);
        auto got = words_of(slot(0));
        if (got != ref.s || slot(0).weylstate != ref.d)
            return log.fail(
                "generate_canonical<float> did not consume exactly one draw");
        auto v = judge_float(x, r);
        if (!v.ok)
            return v.is_f2 ? log.fail(v.msg + " (through XorwowRngEngine)", kF2)
                           : log.fail(v.msg);
        if (x >= 0xff000000u)
            log.label("canonical-float-top-2^24");
    }
    else if (canon == 2)
    {
        log.label("engine-canonical-double");
        uint32_t up = xr::step(ref);
        uint32_t lo = xr::step(ref);
        double r = generate_canonical<double>(eng);
        auto got = words_of(slot(0));
        if (got != ref.s || slot(0).weylstate != ref.d)
            return log.fail(
                "generate_canonical<double> did not consume exactly two draws");
        auto v = judge_double(up, lo, r);
        if (!v.ok)
            return log.fail(v.msg);
    }
    if (is_zero(g.s))
        return Verdict::trivial;
    log.nontrivial = true;
    return Verdict::pass;
}

//---------------------------------------------------------------------------//
// kind 1: discard(n)
//---------------------------------------------------------------------------//
Verdict k_discard(Choices& c, CaseLog& log)
{
    log.label("discard");
    log.d("kind", "\"discard\"");
    GenState g = gen_state(c, log);
    GenCount n = gen_count(c, log, "n");
    log.label(g_lbl_discard[top_poly(n.n)].c_str());

    put(slot(0), g.s, g.d);
    auto eng = engine(0);
    eng.discard(n.n);

    xr::RefState ref;
    ref.s = xr::unpack(g_tab->advance(xr::pack(g.s), n.n));
    ref.d = xr::weyl_after(g.d, n.n);
    auto got = words_of(slot(0));
    if (got != ref.s)
        return log.fail(state_msg("discard(n): xorstate != T^n * state",
                                  got,
                                  slot(0).weylstate,
                                  ref.s,
                                  ref.d));
    if (slot(0).weylstate != ref.d)
        return log.fail("discard(n): Weyl value " + hex32(slot(0).weylstate)
                        + " != d + n*362437 mod 2^32 = " + hex32(ref.d));
    // the next value drawn is the (n+1)-th of the sequence
    uint32_t out = eng();
    uint32_t rout = xr::step(ref);
    if (out != rout)
        return log.fail("value drawn after discard(n) is " + hex32(out)
                        + ", reference " + hex32(rout));

    // literal drawing: always for n <= 2^12, one case in eight up to 2^20
    // (2^20 draws cost ~4 ms under ASan)
    bool literal = n.n <= (uint64_t(1) << 12);
    if (!literal && n.n <= (uint64_t(1) << 20))
        literal = c.boolean(0.125);
    if (literal)
    {
        // literally draw n values: with a second engine and with the
        // reference recurrence
        log.label(n.n > (uint64_t(1) << 16) ? "discard:literal>2^16"
                                            : "discard:literal");
        put(slot(1), g.s, g.d);
        auto eng2 = engine(1);
        xr::RefState lit{g.s, g.d};
        for (uint64_t i = 0; i < n.n; ++i)
        {
            eng2();
            xr::step(lit);
        }
        uint32_t o2 = eng2();
        uint32_t o3 = xr::step(lit);
        auto s2 = words_of(slot(1));
        if (s2 != words_of(slot(0)) || slot(1).weylstate != slot(0).weylstate
            || o2 != out)
            return log.fail(state_msg(
                "discard(n) differs from drawing n values with operator()",
                words_of(slot(0)),
                slot(0).weylstate,
                s2,
                slot(1).weylstate));
        if (lit.s != ref.s || lit.d != ref.d || o3 != out)
            return log.fail(
                state_msg("discard(n) differs from n reference steps",
                          words_of(slot(0)),
                          slot(0).weylstate,
                          lit.s,
                          lit.d));
    }
    if (is_zero(g.s))
        return Verdict::trivial;
    log.nontrivial = n.single_poly || n.n >= (uint64_t(1) << 17);
    return Verdict::pass;
}

//---------------------------------------------------------------------------//
// kind 2: initialisation with (seed, subsequence, offset)
//---------------------------------------------------------------------------//
Verdict k_init(Choices& c, CaseLog& log)
{
    log.label("init");
    log.d("kind", "\"init\"");
    uint32_t seed = c.boolean(0.3) ? uint32_t(c.int_in(0, 3)) * 0x55555555u
                                   : uint32_t(c.bits(4));
    GenCount k = gen_count(c, log, "subsequence");
    bool with_offset = c.boolean(0.4);
    GenCount n{0, false};
    if (with_offset)
        n = gen_count(c, log, "offset");
    log.mix(seed);
    log.ds("seed", hex32(seed));
    log.label(g_lbl_subseq[top_poly(k.n)].c_str());
    if (with_offset)
        log.label("init:with-offset");

    // previous content of the slot must not matter
    put(slot(0), {~0u, ~0u, ~0u, ~0u, ~0u}, 0xdeadbeefu);
    put(slot(1), {1u, 2u, 3u, 4u, 5u}, 77u);
    auto e0 = engine(0);
    XorwowRngInitializer i0;
    i0.seed = {seed};
    i0.subsequence = 0;
    i0.offset = 0;
    e0 = i0;
    xr::Words base = words_of(slot(0));
    uint32_t wb = slot(0).weylstate;
    if (is_zero(base))
        return log.fail("seeding produced the all-zero xorshift state");

    auto e1 = engine(1);
    XorwowRngInitializer i1 = i0;
    i1.subsequence = k.n;
    i1.offset = n.n;
    e1 = i1;

    xr::V160 v = g_tab->advance_subsequences(xr::pack(base), k.n);
    v = g_tab->advance(v, n.n);
    xr::Words ref = xr::unpack(v);
    uint32_t refd = xr::weyl_after(wb, n.n);
    auto got = words_of(slot(1));
    if (got != ref)
        return log.fail(state_msg(
            "init(seed, k, n): xorstate != T^(k*2^67 + n) * state(seed,0,0)",
            got,
            slot(1).weylstate,
            ref,
            refd));
    if (slot(1).weylstate != refd)
        return log.fail("init(seed, k, n): Weyl value "
                        + hex32(slot(1).weylstate)
                        + " != weyl(seed) + n*362437 = " + hex32(refd));
    log.nontrivial = k.n >= 1 || n.n >= (uint64_t(1) << 17);
    return Verdict::pass;
}

//---------------------------------------------------------------------------//
// kind 3: reseed_rng
//---------------------------------------------------------------------------//
Verdict k_reseed(Choices& c, CaseLog& log)
{
    log.label("reseed");
    log.d("kind", "\"reseed\"");
    uint32_t seed = uint32_t(c.bits(4));
    size_type size;
    switch (c.pick({6, 2.5, 0.4}))
    {
        case 0: size = size_type(c.int_in(1, 6)); break;
        case 1: size = size_type(c.int_in(7, 24)); break;
        default: size = size_type(c.int_in(25, 96)); break;
    }
    // event id: bit length uniform in 0..44, or aimed at the place where
    // event*size + slot crosses 2^32 / 2^31
    uint64_t event;
    switch (c.pick({5, 2, 1}))
    {
        case 0: {
            int nb = int(c.int_in(0, 44));
            event = nb ? ((c.bits(6) & ((uint64_t(1) << nb) - 1))
                          | (uint64_t(1) << (nb - 1)))
                       : 0;
            log.label("event:log-uniform");
            break;
        }
        case 1: {
            uint64_t lim = uint64_t(1) << (c.boolean(0.7) ? 32 : 31);
            event = lim / size + uint64_t(c.int_in(0, 2));
            event = event ? event - 1 : 0;
            log.label("event:crossing-2^32");
            break;
        }
        default: {
            static uint64_t const sp[] = {0ull,
                                          1ull,
                                          0xffffffffull,
                                          0x100000000ull,
                                          (1ull << 44) - 1,
                                          1ull << 43,
                                          1ull << 44};
            event = sp[c.index(sizeof sp / sizeof *sp)];
            log.label("event:boundary");
            break;
        }
    }
    uint64_t delta = c.boolean(0.6) ? 1 : uint64_t(c.int_in(1, 1000));
    unsigned stream = unsigned(c.int_in(0, 3));
    log.mix(seed);
    log.mix(size);
    log.mix(event);
    log.mix(delta);
    log.ds("seed", hex32(seed));
    log.d("slots", size);
    log.ds("event", hex64(event));
    log.d("second_event_delta", delta);

    XorwowRngParams params(seed);
    Store store(params.host_ref(), StreamId{0}, size);

    // seed state through the engine (slot 0 of the scratch store)
    auto e0 = engine(0);
    XorwowRngInitializer i0;
    i0.seed = {seed};
    e0 = i0;
    xr::V160 base = xr::pack(words_of(slot(0)));
    uint32_t wb = slot(0).weylstate;

    std::vector<xr::V160> seen;
    std::vector<unsigned __int128> idxs;
    uint64_t top = 0;
    for (int pass = 0; pass < 2; ++pass)
    {
        uint64_t ev = event + (pass ? delta : 0);
        reseed_rng(params.host_ref(),
                   store.ref(),
                   StreamId{stream},
                   UniqueEventId{ev});
        for (size_type i = 0; i < size; ++i)
        {
            unsigned __int128 idx = (unsigned __int128)ev * size + i;
            if (idx >> 64)
                return Verdict::rejected;  // cannot happen for ev < 2^45
            idxs.push_back(idx);
            top = std::max(top, uint64_t(idx));
            xr::V160 ref = g_tab->advance_subsequences(base, uint64_t(idx));
            XorwowState const& st = store.ref().state[TrackSlotId{i}];
            xr::Words got = words_of(st);
            if (xr::pack(got) != ref)
            {
                return log.fail(
                    state_msg("reseed_rng: slot state != "
                              "T^((event*slots + slot)*2^67) * state(seed)",
                              got,
                              st.weylstate,
                              xr::unpack(ref),
                              wb)
                    + " at event " + hex64(ev) + " slot " + std::to_string(i)
                    + " of " + std::to_string(size));
            }
            if (st.weylstate != wb)
                return log.fail("reseed_rng: Weyl value changed by a "
                                "subsequence jump");
            seen.push_back(ref);
        }
    }
    // injectivity: all (event, slot) pairs got different stream indices and
    // different states
    std::sort(idxs.begin(), idxs.end());
    if (std::adjacent_find(idxs.begin(), idxs.end()) != idxs.end())
        return log.fail("harness: stream indices collide");
    std::sort(seen.begin(), seen.end());
    if (std::adjacent_find(seen.begin(), seen.end()) != seen.end())
        return log.fail(
            "reseed_rng: two (event, slot) pairs received the same state");
    log.label(g_lbl_reseed[top_poly(top)].c_str());
    if (top >= (uint64_t(1) << 32))
        log.label("reseed:index>=2^32");
    log.nontrivial = size >= 2 && event >= 1;
    return Verdict::pass;
}

//---------------------------------------------------------------------------//
// kind 4: canonical reals from prescribed generator outputs
//---------------------------------------------------------------------------//
Verdict k_canon(Choices& c, CaseLog& log)
{
    log.d("kind", "\"canonical\"");
    bool dbl = c.boolean(0.5);
    SeqGen gen;
    gen.v[0] = gen_output(c);
    gen.v[1] = gen_output(c);
    log.mix(int(dbl));
    log.mix(gen.v[0]);
    log.ds("out0", hex32(gen.v[0]));
    if (!dbl)
    {
        log.label("canonical-float");
        float r = detail::GenerateCanonical32<float>()(gen);
        if (gen.calls != 1)
            return log.fail("GenerateCanonical32<float> drew "
                            + std::to_string(gen.calls) + " values, not 1");
        auto v = judge_float(gen.v[0], r);
        if (!v.ok)
            return v.is_f2 ? log.fail(v.msg, kF2) : log.fail(v.msg);
        if (gen.v[0] >= 0x1000000u)
            log.label("canonical-float-rounded");
        log.nontrivial = gen.v[0] != 0;
        return Verdict::pass;
    }
    log.label("canonical-double");
    log.mix(gen.v[1]);
    log.ds("out1", hex32(gen.v[1]));
    double r = detail::GenerateCanonical32<double>()(gen);
    if (gen.calls != 2)
        return log.fail("GenerateCanonical32<double> drew "
                        + std::to_string(gen.calls) + " values, not 2");
    auto v = judge_double(gen.v[0], gen.v[1], r);
    if (!v.ok)
        return log.fail(v.msg);
    if (gen.v[0] >= 0xfffffe00u)
        log.label("canonical-double-top");
    log.nontrivial = (gen.v[0] | gen.v[1]) != 0;
    return Verdict::pass;
}

}  // namespace

//---------------------------------------------------------------------------//
void setup()
{
    g_params = std::make_unique<XorwowRngParams>(12345u);
    g_store = std::make_unique<Store>(g_params->host_ref(), StreamId{0}, 4);
    g_tab = std::make_unique<xr::JumpTable>();
    for (int i = 0; i <= 32; ++i)
    {
        char b[48];
        if (i == 0)
            std::snprintf(b, sizeof b, "none");
        else
            std::snprintf(b, sizeof b, "%02d", i - 1);
        g_lbl_discard[i] = std::string("discard:top-poly-") + b;
        g_lbl_subseq[i] = std::string("subseq:top-poly-") + b;
        g_lbl_reseed[i] = std::string("reseed:top-poly-") + b;
    }
}

Verdict run_case(Choices& c, CaseLog& log)
{
    int kind = int(c.pick({2, 5, 3.5, 1.2, 1.3}));
    log.mix(kind);
    switch (kind)
    {
        case 0: return k_step(c, log);
        case 1: return k_discard(c, log);
        case 2: return k_init(c, log);
        case 3: return k_reseed(c, log);
        default: return k_canon(c, log);
    }
}

//---------------------------------------------------------------------------//
// Exhaustive / enumerated part
//---------------------------------------------------------------------------//
bool run_exhaustive(ExhaustiveResult& r)
{
    r.scope
        = "(e1) operator() on all 160 unit states and 32 unit Weyl values; "
          "(e2) reference self-check: T^(2^i) by squaring == 2^i literal "
          "steps, i <= 20; (a) each of the 32 step polynomials alone, "
          "discard(j*4^i), j=1..3, on all 160 unit states + all-ones + 8 dense "
          "states, and each of the 32 subsequence polynomials alone, "
          "init(seed, j*4^i, 0), j=1..3, 16 seeds; (a') discard(n) for every "
          "n in [0, 4096] against literal drawing; (b) factorisation of "
          "2^160-1 certified (Miller-Rabin + 160-bit product), T^(2^160-1) == "
          "I and T^((2^160-1)/p) != I for its 12 prime factors p; (c) "
          "GenerateCanonical32<float> on all 2^32 generator outputs (thorough tier; quick tier: both ends 2^22 each + stride 1021), "
          "GenerateCanonical32<double> on all pairs of 85 extreme outputs";
    auto fail = [&r](std::string m) {
        r.violated = true;
        r.msg = std::move(m);
        return true;
    };
    xr::JumpTable const& tab = *g_tab;
    xr::Mat const T = xr::transition();

    // deterministic dense states (SplitMix64 constants as a plain mixer)
    auto mix64 = [](uint64_t z) {
        z += 0x9e3779b97f4a7c15ull;
        z = (z ^ (z >> 30)) * 0xbf58476d1ce4e5b9ull;
        z = (z ^ (z >> 27)) * 0x94d049bb133111ebull;
        return z ^ (z >> 31);
    };
    std::vector<xr::Words> states;
    for (int i = 0; i < 160; ++i)
        states.push_back(xr::unpack(xr::unit(i)));
    states.push_back({~0u, ~0u, ~0u, ~0u, ~0u});
    for (uint64_t q = 0; q < 8; ++q)
    {
        xr::Words w;
        for (int i = 0; i < 5; ++i)
            w[i] = uint32_t(mix64(q * 5 + i) >> 16);
        states.push_back(w);
    }
    states.push_back({123456789u, 362436069u, 521288629u, 88675123u, 5783321u});

    // (e1) single steps
    {
        auto eng = engine(0);
        for (auto const& s : states)
        {
            for (int b = -1; b < 32; ++b)
            {
                if (b >= 0 && &s != &states[0] && &s != &states.back())
                    break;
                xr::RefState ref{s, b < 0 ? 6615241u : (1u << b)};
                put(slot(0), ref.s, ref.d);
                uint32_t out = eng();
                uint32_t rout = xr::step(ref);
                ++r.evaluations;
                ++r.nontrivial;
                if (words_of(slot(0)) != ref.s || slot(0).weylstate != ref.d
                    || out != rout)
                    return fail(state_msg("operator() on a unit state",
                                          words_of(slot(0)),
                                          slot(0).weylstate,
                                          ref.s,
                                          ref.d));
            }
        }
    }

    // (e2) the reference table against literal stepping of the reference
    {
        for (auto const* sp : {&states[160], &states[161], &states.back()})
        {
            xr::Words lit = *sp;
            uint64_t done = 0;
            for (int i = 0; i <= 20; ++i)
            {
                for (; done < (uint64_t(1) << i); ++done)
                    lit = xr::next_words(lit);
                ++r.evaluations;
                if (xr::apply(tab.step_pow2(i), xr::pack(*sp)) != xr::pack(lit)
                    || tab.advance(xr::pack(*sp), done) != xr::pack(lit))
                    return fail("harness oracle: T^(2^i) by squaring differs "
                                "from literal stepping, i="
                                + std::to_string(i));
            }
        }
        // table entries against an independent square-and-multiply
        xr::U160 e = xr::shl(xr::u160_from(3), 67 + 40);  // 3 * 2^107
        xr::Mat a = xr::pow(T, e);
        xr::Mat b;
        xr::mul(tab.sub_pow2(40), tab.sub_pow2(41), b);
        ++r.evaluations;
        if (!xr::equal(a, b))
            return fail("harness oracle: subsequence table differs from "
                        "square-and-multiply");
    }

    // (a) every jump polynomial on its own
    for (int i = 0; i < 32; ++i)
    {
        for (int j = 1; j <= 3; ++j)
        {
            uint64_t cnt = uint64_t(j) << (2 * i);
            auto eng = engine(0);
            for (auto const& s : states)
            {
                put(slot(0), s, 6615241u);
                eng.discard(cnt);
                xr::Words ref = xr::unpack(tab.advance(xr::pack(s), cnt));
                uint32_t refd = xr::weyl_after(6615241u, cnt);
                ++r.evaluations;
                ++r.nontrivial;
                if (words_of(slot(0)) != ref || slot(0).weylstate != refd)
                    return fail(state_msg(("step polynomial "
                                           + std::to_string(i) + " applied "
                                           + std::to_string(j)
                                           + "x: discard(" + hex64(cnt) + ")")
                                              .c_str(),
                                          words_of(slot(0)),
                                          slot(0).weylstate,
                                          ref,
                                          refd));
            }
            for (uint32_t q = 0; q < 16; ++q)
            {
                uint32_t seed = q < 4 ? q * 0x55555555u
                                      : uint32_t(mix64(1000 + q) >> 7);
                XorwowRngInitializer i0;
                i0.seed = {seed};
                auto e0 = engine(0);
                e0 = i0;
                xr::Words base = words_of(slot(0));
                uint32_t wb = slot(0).weylstate;
                if (is_zero(base))
                    return fail("seeding produced the all-zero state, seed "
                                + hex32(seed));
                XorwowRngInitializer i1 = i0;
                i1.subsequence = cnt;
                auto e1 = engine(1);
                e1 = i1;
                xr::Words ref = xr::unpack(
                    tab.advance_subsequences(xr::pack(base), cnt));
                ++r.evaluations;
                ++r.nontrivial;
                if (words_of(slot(1)) != ref || slot(1).weylstate != wb)
                    return fail(state_msg(
                        ("subsequence polynomial " + std::to_string(i)
                         + " applied " + std::to_string(j) + "x: init(seed="
                         + hex32(seed) + ", subsequence=" + hex64(cnt) + ")")
                            .c_str(),
                        words_of(slot(1)),
                        slot(1).weylstate,
                        ref,
                        wb));
            }
        }
    }
    r.samples.push_back(
        "discard(3*4^31 = 0xc000000000000000) on unit state e_159 == "
        "T^(3*4^31) e_159");
    r.samples.push_back(
        "init(seed=0xffffffff, subsequence=2*4^31) == T^(2^130) "
        "state(seed,0,0)");

    // (a') all small counts against literal drawing
    {
        xr::RefState lit{states.back(), 6615241u};
        auto eng = engine(0);
        for (uint64_t n = 0; n <= 4096; ++n)
        {
            put(slot(0), states.back(), 6615241u);
            eng.discard(n);
            ++r.evaluations;
            if (words_of(slot(0)) != lit.s || slot(0).weylstate != lit.d)
                return fail(state_msg(("discard(" + std::to_string(n)
                                       + ") vs literal drawing")
                                          .c_str(),
                                      words_of(slot(0)),
                                      slot(0).weylstate,
                                      lit.s,
                                      lit.d));
            xr::step(lit);
        }
    }

    // (b) the order of T is exactly 2^160 - 1
    {
        static uint64_t const primes[] = {3ull,
                                          5ull,
                                          11ull,
                                          17ull,
                                          31ull,
                                          41ull,
                                          257ull,
                                          61681ull,
                                          65537ull,
                                          414721ull,
                                          4278255361ull,
                                          44479210368001ull};
        xr::U160 const M = xr::u160_all_ones();
        // certify 2^160 - 1 = 3 * 5^2 * 11 * ... (no trust in the list)
        xr::U160 prod = xr::u160_from(5);
        bool ovf = false;
        for (uint64_t p : primes)
        {
            if (!xr::is_prime(p))
                return fail("harness: listed factor is not prime");
            prod = xr::mul_small(prod, p, &ovf);
        }
        if (ovf || !(prod == M))
            return fail("harness: factor list does not multiply to 2^160-1");
        ++r.evaluations;
        if (!xr::is_identity(xr::pow(T, M)))
            return fail("T^(2^160-1) != I: the xorshift part does not have "
                        "period dividing 2^160-1");
        for (uint64_t p : primes)
        {
            uint64_t rem = 1;
            xr::U160 e = xr::div_small(M, p, &rem);
            if (rem != 0)
                return fail("harness: factor does not divide 2^160-1");
            ++r.evaluations;
            ++r.nontrivial;
            if (xr::is_identity(xr::pow(T, e)))
                return fail("T^((2^160-1)/" + std::to_string(p)
                            + ") == I: period of the xorshift part is a "
                              "proper divisor of 2^160-1");
        }
        // all stream starts idx*2^67, idx < 2^64, lie within one period:
        // 2^64 * 2^67 = 2^131 < 2^160 - 1 (and T^(2^131) != I follows from
        // the order); checked explicitly for the table end
        xr::Mat last;
        xr::mul(tab.sub_pow2(63), tab.sub_pow2(63), last);  // T^(2^131)
        ++r.evaluations;
        if (xr::is_identity(last))
            return fail("T^(2^131) == I");
        r.samples.push_back(
            "order(T) = 2^160-1: T^(2^160-1)=I, T^((2^160-1)/p)!=I for p in "
            "{3,5,11,17,31,41,257,61681,65537,414721,4278255361,"
            "44479210368001}");
    }

    // (c) canonical reals
    {
        // double: all pairs of extreme outputs
        std::vector<uint32_t> ext;
        for (uint32_t b : {0u,
                           0x7ffu,
                           0x800u,
                           0x1fffffu,
                           0x200000u,
                           0xffffffu,
                           0x1000000u,
                           0x7fffffffu,
                           0x80000000u,
                           0xffe00000u,
                           0xfffff800u,
                           0xfffffe00u,
                           0xffffff00u,
                           0xffffff80u,
                           0xfffffffeu,
                           0xaaaaaaaau,
                           0x55555555u})
            for (int o = -2; o <= 2; ++o)
                ext.push_back(b + uint32_t(o));
        for (uint32_t up : ext)
            for (uint32_t lo : ext)
            {
                SeqGen gen;
                gen.v[0] = up;
                gen.v[1] = lo;
                double d = detail::GenerateCanonical32<double>()(gen);
                ++r.evaluations;
                ++r.nontrivial;
                auto v = judge_double(up, lo, d);
                if (!v.ok || gen.calls != 2)
                    return fail(v.msg.empty() ? "GenerateCanonical32<double> "
                                                "did not draw two values"
                                              : v.msg);
            }
        // float: every generator output
        struct Counter
        {
            using result_type = uint32_t;
            uint32_t x = 0;
            static constexpr uint32_t min() { return 0u; }
            static constexpr uint32_t max() { return 0xffffffffu; }
            uint32_t operator()() { return x; }
        } cg;
        detail::GenerateCanonical32<float> canon;
        uint64_t n_one = 0, n_bad_other = 0, n_far = 0, n_nonmono = 0;
        uint32_t first_one = 0, first_other = 0, first_far = 0;
        float prev = -1.0f, maxbelow = 0.0f;
        // quick tier: both ends (2^22 outputs each) and a stride through the
        // middle; thorough tier: all 2^32 outputs
        char const* tier = std::getenv("VERIF_TIER");
        bool const quick = tier && std::string(tier) == "quick";
        uint64_t const end_block = uint64_t(1) << 22;
        uint64_t scanned = 0;
        for (uint64_t x = 0; x < (uint64_t(1) << 32);
             x += (quick && x >= end_block
                   && x < (uint64_t(1) << 32) - end_block)
                      ? 1021
                      : 1)
        {
            ++scanned;
            cg.x = uint32_t(x);
            float f = canon(cg);
            if (!(f >= 0.0f && f < 1.0f))
            {
                if (f == 1.0f && x > 0xffffff7fu)
                {
                    if (!n_one++)
                        first_one = uint32_t(x);
                }
                else if (!n_bad_other++)
                    first_other = uint32_t(x);
            }
            else
            {
                maxbelow = f > maxbelow ? f : maxbelow;
                if (!(std::fabs(double(f) - double(x) * 0x1p-32) <= 0x1p-24))
                {
                    if (!n_far++)
                        first_far = uint32_t(x);
                }
            }
            if (f < prev)
                ++n_nonmono;
            prev = f;
        }
        r.evaluations += long(scanned);
        r.nontrivial += long(scanned - 1);
        if (n_bad_other)
            return fail("GenerateCanonical32<float> outside [0,1) for "
                        + std::to_string(n_bad_other)
                        + " outputs not covered by F2, first 0x"
                        + hex32(first_other));
        if (n_far)
            return fail("GenerateCanonical32<float> further than 2^-24 from "
                        "x/2^32 for "
                        + std::to_string(n_far) + " outputs, first 0x"
                        + hex32(first_far));
        if (n_nonmono)
            return fail("GenerateCanonical32<float> not monotone in the "
                        "generator output ("
                        + std::to_string(n_nonmono) + " descents)");
        if (n_one)
        {
            char b[256];
            std::snprintf(b,
                          sizeof b,
                          "GenerateCanonical32<float> returns exactly 1.0f "
                          "for %llu of the 2^32 generator outputs (all "
                          "outputs >= 0x%08x); largest value below one is "
                          "%.9g",
                          (unsigned long long)n_one,
                          first_one,
                          double(maxbelow));
            r.known.emplace_back(kF2, b);
        }
        r.samples.push_back(std::string("float canonical over ")
                            + (quick ? "both ends (2^22 each) + stride 1021 of"
                                     : "all")
                            + " 2^32 generator outputs: "
                            + std::to_string(n_one) + " give 1.0f");
    }
    return true;
}

}  // namespace verif
