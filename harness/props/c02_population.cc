// C02 — every primary and secondary is transported exactly once.
//
// A lock-step population model is fed from read-only harness snapshots of
// every track slot at user_start and user_post of every Stepper call and
// compared with the step stream and the StepperResult counters.
#include <map>
#include <set>
#include <sstream>

#include "caselog.hh"
#include "simcheck.hh"
#include "simrun.hh"

namespace verif
{
char const* const kPropertyId = "C02";
char const* const kHarness = "c02_population";
size_t const kMaxBytes = 704;
char const* const kRule
    = "problems as for C01 (1-64 slots incl. 1, all track orders incl. "
      "init_charge, 1-2 events of 1-4 primaries, tight and ample secondary "
      "multiplicity); population model from slot snapshots: no (event, track "
      "id) in two slots, no id reused after its track ended, every secondary's "
      "parent took a step no later than the call that created it, each track "
      "ends exactly once, active/alive/queued counters equal the model, "
      "active(k) = alive(k-1) + min(vacancies, queued(k-1)), the event "
      "terminates with alive = queued = 0 and the set of ended tracks equals "
      "the set of created tracks; generated = primaries given, parentless "
      "tracks per event = primaries given, no slot holds a track of another "
      "event; optional history prefix (event abandoned after k calls + "
      "reset_state()); non-trivial = >= 1 call in which the queue "
      "was non-empty while slots were vacant or a parent died with >= 2 "
      "secondaries";

void setup()
{
    geosrc_setup();
}

namespace
{
using namespace sim;

struct SlotSnap
{
    int event = -1;
    long track = -1;
    int status = 0;
};

struct CallSnap
{
    std::vector<SlotSnap> start, post;
};

struct Snaps
{
    long const* call = nullptr;
    std::map<long, CallSnap> calls;
};

}  // namespace

Verdict run_case(Choices& c, CaseLog& log)
{
    auto snaps = std::make_shared<Snaps>();
    auto snap_at = [snaps](bool post) {
        return [snaps, post](CoreParams const& p,
                             CoreState<MemSpace::host>& st) {
            if (!snaps->call)
                return;
            CallSnap& cs = snaps->calls[*snaps->call];
            auto& v = post ? cs.post : cs.start;
            v.assign(st.size(), SlotSnap{});
            for (auto i : range(TrackSlotId{st.size()}))
            {
                CoreTrackView t(p.host_ref(), st.ref(), i);
                auto sim = t.make_sim_view();
                SlotSnap& s = v[i.get()];
                s.status = int(sim.status());
                if (sim.status() != TrackStatus::inactive)
                {
                    s.event = int(sim.event_id().get());
                    s.track = long(sim.track_id().get());
                }
            }
        };
    };
    std::vector<Hook> hooks = {
        {"verif-pop-start", StepActionOrder::user_start, snap_at(false)},
        {"verif-pop-post", StepActionOrder::user_post, snap_at(true)},
    };
    GenOptions opt;
    Problem p;
    Verdict v = setup_problem(c, log, opt, p, hooks);
    if (v != Verdict::pass)
        return v;
    snaps->call = &p.w->rec->call;
    World& w = *p.w;
    int slots = p.spec.track_slots;
    long interesting = 0;
    std::set<std::pair<int, long>> created, ended;
    // generated history prefix: an event abandoned after k Stepper calls,
    // followed by reset_state() (what celer-sim's Transporter does after a
    // failed event); nothing of it may survive into the following events
    if (c.boolean(0.3))
    {
        int k = int(c.int_in(1, 8));
        log.mix(k);
        auto const& ev = p.spec.events.back();
        auto prim = make_primaries(w, ev, 7);
        RunResult r = run_event(w, *p.stepper, prim, 424242, k);
        if (r.error.find("insufficient") != std::string::npos)
            return Verdict::rejected;
        if (!r.error.empty())
            return log.fail("exception during transport: " + r.error);
        p.stepper->reset_state();
        w.rec->steps.clear();
        snaps->calls.clear();
        log.label(r.completed ? "prefix-completed-then-reset"
                              : "prefix-aborted-in-flight-then-reset");
        log.d("abort_after_calls", k);
    }
    for (size_t e = 0; e < p.spec.events.size(); ++e)
    {
        auto prim = make_primaries(w, p.spec.events[e], int(e));
        long call0 = w.rec->call;
        RunResult r = run_event(w, *p.stepper, prim, unsigned(e), 30000);
        if (r.error.find("insufficient") != std::string::npos)
        {
            log.label("capacity-exceeded");
            return Verdict::rejected;
        }
        if (!r.error.empty())
            return log.fail("exception during transport: " + r.error);
        if (!r.completed)
        {
            // candidate non-termination: judge only obvious livelocks, i.e.
            // a track whose last 2000 steps changed neither its position nor
            // its energy (slow progress with a small step limiter in a thin
            // medium is an expensive case, not a violation)
            std::map<unsigned, std::vector<StepRec const*>> per;
            for (auto const& s : w.rec->steps)
                per[s.track].push_back(&s);
            for (auto const& kv : per)
            {
                auto const& st = kv.second;
                if (st.size() < 4000)
                    continue;
                bool frozen = true;
                StepRec const& last = *st.back();
                for (size_t k = st.size() - 2000; k < st.size() && frozen; ++k)
                {
                    StepRec const& r = *st[k];
                    frozen = r.length == 0 && r.post.energy == last.post.energy
                             && r.pre.energy == last.post.energy;
                    for (int a = 0; a < 3; ++a)
                        frozen = frozen && r.post.pos[a] == last.post.pos[a];
                }
                if (frozen)
                    return log.fail(
                        "event does not terminate: track "
                        + std::to_string(kv.first) + " has taken "
                        + std::to_string(st.size())
                        + " steps, the last 2000 without moving or losing "
                          "energy");
            }
            log.label("budget-exhausted");
            return Verdict::trivial;
        }
        // ---- per-call checks
        StepperResult prev{};
        for (long k = 0; k < r.calls; ++k)
        {
            // "generated" = new primaries added by this call
            if (long(r.results[k].generated) != (k == 0 ? long(prim.size()) : 0))
            {
                std::ostringstream m;
                m << "event " << e << " call " << k
                  << ": StepperResult.generated = " << r.results[k].generated
                  << " but " << (k == 0 ? prim.size() : size_t(0))
                  << " primaries were given";
                return log.fail(m.str());
            }
            long call = call0 + 1 + k;
            auto it = snaps->calls.find(call);
            if (it == snaps->calls.end())
                return log.fail("no snapshot for Stepper call "
                                + std::to_string(k));
            CallSnap const& cs = it->second;
            StepperResult const& res = r.results[k];
            std::ostringstream where;
            where << "event " << e << " call " << k << ": ";
            // uniqueness among slots
            for (auto const* vec : {&cs.start, &cs.post})
            {
                std::set<std::pair<int, long>> seen;
                for (auto const& s : *vec)
                    if (s.track >= 0 && s.event != int(e))
                        return log.fail(where.str() + "slot holds track "
                                        + std::to_string(s.track)
                                        + " of event "
                                        + std::to_string(s.event)
                                        + " while event "
                                        + std::to_string(e)
                                        + " is being transported");
                for (auto const& s : *vec)
                    if (s.track >= 0 && !seen.insert({s.event, s.track}).second)
                        return log.fail(where.str() + "track "
                                        + std::to_string(s.track)
                                        + " occupies two slots");
            }
            // model counters
            long n_active = 0, n_alive_post = 0;
            for (auto const& s : cs.start)
                if (s.status != int(TrackStatus::inactive))
                    ++n_active;
            for (auto const& s : cs.post)
                if (s.status == int(TrackStatus::alive))
                    ++n_alive_post;
            if (long(res.active) != n_active)
            {
                std::ostringstream m;
                m << where.str() << "StepperResult.active = " << res.active
                  << " but " << n_active << " slots hold a track at "
                  << "user_start";
                return log.fail(m.str());
            }
            // records of this call
            long nrec = 0;
            for (auto const& s : w.rec->steps)
                if (s.call == call)
                    ++nrec;
            if (nrec != n_active)
            {
                std::ostringstream m;
                m << where.str() << n_active << " active slots but " << nrec
                  << " steps were delivered";
                return log.fail(m.str());
            }
            // newly initialised tracks, re-use of ended ids
            for (size_t i = 0; i < cs.start.size(); ++i)
            {
                auto const& s = cs.start[i];
                if (s.track < 0)
                    continue;
                std::pair<int, long> key{s.event, s.track};
                if (ended.count(key))
                    return log.fail(where.str() + "track id "
                                    + std::to_string(s.track)
                                    + " is in flight again after it ended");
                created.insert(key);
            }
            for (auto const& s : cs.post)
            {
                if (s.track < 0)
                    continue;
                if (s.status >= int(TrackStatus::begin_dying_))
                {
                    if (!ended.insert({s.event, s.track}).second)
                        return log.fail(where.str() + "track "
                                        + std::to_string(s.track)
                                        + " ends twice");
                }
            }
            // active(k) = alive(k-1) + min(vacancies, queued(k-1)) (k > 0)
            if (k > 0)
            {
                long vac = slots - long(prev.alive);
                long expect = long(prev.alive)
                              + std::min<long>(vac, long(prev.queued));
                if (long(res.active) != expect)
                {
                    std::ostringstream m;
                    m << where.str() << "active = " << res.active
                      << " but previous alive/queued = " << prev.alive << "/"
                      << prev.queued << " with " << slots
                      << " slots predicts " << expect;
                    return log.fail(m.str());
                }
                if (prev.queued > 0 && vac > 0)
                    ++interesting;
            }
            if (long(res.alive) > long(res.active) + 0
                && long(res.alive) > slots)
                return log.fail(where.str() + "alive exceeds slot count");
            if (long(res.alive) < n_alive_post)
            {
                std::ostringstream m;
                m << where.str() << "StepperResult.alive = " << res.alive
                  << " but " << n_alive_post
                  << " slots are alive after the post-step actions";
                return log.fail(m.str());
            }
            prev = res;
        }
        if (prev.alive != 0 || prev.queued != 0)
            return log.fail("event reported complete with alive/queued = "
                            + std::to_string(prev.alive) + "/"
                            + std::to_string(prev.queued));
    }
    // every created track ended exactly once, and every track in the stream
    // was created (seen in a slot) and vice versa
    if (created != ended)
    {
        std::ostringstream m;
        m << created.size() << " tracks were created but " << ended.size()
          << " ended";
        return log.fail(m.str());
    }
    auto events = split_events(w.rec->steps);
    for (size_t e = 0; e < p.spec.events.size(); ++e)
    {
        size_t nprim = 0;
        auto it = events.find(int(e));
        if (it != events.end())
            for (auto const& tk : it->second.tracks)
                if (tk.second.parent < 0)
                    ++nprim;
        if (nprim != p.spec.events[e].size())
            return log.fail("event " + std::to_string(e) + ": "
                            + std::to_string(p.spec.events[e].size())
                            + " primaries were given but "
                            + std::to_string(nprim)
                            + " parentless tracks took steps");
    }
    size_t in_stream = 0;
    long multi_death = 0;
    for (auto const& ek : events)
    {
        std::map<unsigned, long> first_call;
        for (auto const& tk : ek.second.tracks)
            first_call[tk.first] = tk.second.steps.front()->call;
        std::map<std::pair<unsigned, long>, int> born_at;  // (parent, call)
        for (auto const& tk : ek.second.tracks)
        {
            ++in_stream;
            if (!created.count({ek.first, long(tk.first)}))
                return log.fail("track " + std::to_string(tk.first)
                                + " delivers steps but was never seen in a "
                                  "slot");
            TrackLog const& t = tk.second;
            // (a track that cannot be initialised is killed without a step
            // and delivers one zero-length record with step count 0)
            bool killed_at_init = t.steps.size() == 1
                                  && t.steps[0]->step_count == 0
                                  && t.steps[0]->length == 0;
            for (size_t k = 0; k < t.steps.size() && !killed_at_init; ++k)
                if (t.steps[k]->step_count != k + 1)
                    return log.fail("track " + std::to_string(tk.first)
                                    + ": step counts not consecutive");
            if (t.parent >= 0)
            {
                auto pit = ek.second.tracks.find(unsigned(t.parent));
                if (pit == ek.second.tracks.end())
                    return log.fail("track " + std::to_string(tk.first)
                                    + " names parent "
                                    + std::to_string(t.parent)
                                    + " which never took a step");
                // the parent stepped in a call before the child's first step
                bool ok = false;
                long child_call = t.steps.front()->call;
                long parent_call = -1;
                for (StepRec const* ps : pit->second.steps)
                    if (ps->call < child_call)
                    {
                        ok = true;
                        parent_call = ps->call;
                    }
                if (!ok)
                    return log.fail("track " + std::to_string(tk.first)
                                    + " started before its parent "
                                    + std::to_string(t.parent)
                                    + " took any step");
                ++born_at[{unsigned(t.parent), parent_call}];
            }
        }
        for (auto const& kv : born_at)
            if (kv.second >= 2)
                ++multi_death;
    }
    if (in_stream != created.size())
        return log.fail(std::to_string(created.size())
                        + " tracks were in flight but "
                        + std::to_string(in_stream) + " delivered steps");
    log.count("tracks", long(created.size()));
    log.count("calls_with_queue_and_vacancy", interesting);
    if (slots == 1)
        log.label("one-slot");
    log.nontrivial = interesting > 0 || multi_death > 0;
    return Verdict::pass;
}

bool run_exhaustive(ExhaustiveResult&)
{
    return false;
}

}  // namespace verif
