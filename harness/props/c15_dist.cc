// C15 (part 1) — elementary sampling distributions respect their support, use
// a bounded number of random draws and follow their analytic law.
//
// One case = one (distribution, parameters, stream) triple:
//   * "fit" mode: N in [1e3, 2e4] samples from a xorwow stream seeded from
//     the choice sequence; support predicate on every sample, exact/bounded
//     draw counts, goodness of fit (oracle/stats.hh) at alpha = 1e-9 with the
//     re-test rule of DESIGN 3.4 (a statistical failure must reproduce on a
//     fresh stream);
//   * "adversarial" mode: N in [8, 400] samples from the same stream in which
//     up to four canonical draws are replaced by extreme values that
//     generate_canonical can really return (0, 2^-53, 1-2^-53, ...); support
//     and draw-count predicates only.
#include <algorithm>
#include <cmath>
#include <cstdio>
#include <memory>
#include <string>
#include <vector>

#define VERIF_STATS_WITH_ENGINE 1
#include "caselog.hh"
#include "stats.hh"

#include "corecel/OpaqueId.hh"
#include "corecel/Types.hh"
#include "corecel/cont/Array.hh"
#include "corecel/data/CollectionStateStore.hh"
#include "corecel/math/ArrayUtils.hh"
#include "celeritas/Types.hh"
#include "celeritas/random/Selector.hh"
#include "celeritas/random/XorwowRngData.hh"
#include "celeritas/random/XorwowRngEngine.hh"
#include "celeritas/random/XorwowRngParams.hh"
#include "celeritas/random/detail/GenerateCanonical32.hh"
#include "celeritas/random/distribution/BernoulliDistribution.hh"
#include "celeritas/random/distribution/ExponentialDistribution.hh"
#include "celeritas/random/distribution/GammaDistribution.hh"
#include "celeritas/random/distribution/GenerateCanonical.hh"
#include "celeritas/random/distribution/InverseSquareDistribution.hh"
#include "celeritas/random/distribution/IsotropicDistribution.hh"
#include "celeritas/random/distribution/NormalDistribution.hh"
#include "celeritas/random/distribution/PoissonDistribution.hh"
#include "celeritas/random/distribution/RadialDistribution.hh"
#include "celeritas/random/distribution/ReciprocalDistribution.hh"
#include "celeritas/random/distribution/RejectionSampler.hh"
#include "celeritas/random/distribution/UniformBoxDistribution.hh"
#include "celeritas/random/distribution/UniformRealDistribution.hh"


namespace verif
{
char const* const kPropertyId = "C15";
char const* const kHarness = "c15_dist";
size_t const kMaxBytes = 168;
char const* const kRule
    = "byte string -> (distribution kind of 14, parameters log-uniform over "
      "the documented domain with boundary picks, xorwow seed/subsequence, "
      "mode fit: N in [1e3,2e4] samples | adversarial: N in [8,400] samples "
      "with <=4 canonical draws forced to 0, 2^-53, 1-2^-53, ...); oracle = "
      "support predicate per sample, exact/bounded draw counts, DKW-KS + "
      "U-mean + per-bin Chernoff (rigorous, alpha 1e-9) + pooled chi-square "
      "(alpha 1e-12) + exact sum tests against long-double CDF/PMF, a "
      "statistical failure must repeat on a fresh stream; non-trivial = fit "
      "case with N >= 1000 and parameters not within 1% of a unit-test "
      "constant, or adversarial case in which a forced draw was consumed";

namespace
{
using namespace celeritas;
using namespace verif::c15;
using stats::ld;

//! Flip to false once PoissonDistribution clamps negative deviates (F9 fixed)
constexpr bool kF9Open = false;
char const* const kF9 = "F9-poisson-negative-cast";
//! -log(0) / log(0) reachable because generate_canonical returns [0,1)
char const* const kFLogZero = "F15a-log-of-zero-canonical";
//! RejectionSampler(f=0) accepts when the canonical draw is exactly 0
char const* const kFRejZero = "F15b-rejection-accepts-zero-density";
//! Selector returns a trailing zero-weight entry when total*u rounds to total
char const* const kFSelZero = "F15c-selector-zero-weight-last";

constexpr double kAlpha = 1e-9;
constexpr double kAlphaChi2 = 1e-12;
constexpr double kEps = 2.220446049250313e-16;  // 2^-52

struct Attempt
{
    bool hard = false;
    std::string msg, key;
    bool stat = false;
    std::string stat_msg;
    long adv_used = 0;

    void fail(std::string m, char const* k = nullptr)
    {
        if (hard)
            return;
        hard = true;
        msg = std::move(m);
        if (k)
            key = k;
    }
    void stat_fail(std::string m)
    {
        if (!stat)
            stat_msg = std::move(m);
        stat = true;
    }
    void gof(char const* what, stats::GofResult const& g)
    {
        if (g.reject(kAlpha, kAlphaChi2))
            this->stat_fail(std::string(what) + ": " + g.str());
    }
    void pval(char const* what, ld p)
    {
        if (p < kAlpha)
        {
            char b[160];
            std::snprintf(
                b, sizeof b, "%s: exact two-sided p=%.3Lg", what, p);
            this->stat_fail(b);
        }
    }
};

std::string num(double v)
{
    char b[40];
    std::snprintf(b, sizeof b, "%.17g", v);
    return b;
}

struct Common
{
    bool adversarial = false;
    int n = 0;
    Stream s;
    AdvPlan adv;
};

// dps: upper estimate of canonical draws per sample (range for forced draws)
Common decode_common(Choices& c, CaseLog& log, int dps, int nmax = 20000)
{
    Common k;
    k.adversarial = c.boolean(0.25);
    k.s.seed = uint32_t(c.bits(4));
    k.s.subseq = unsigned(c.int_in(0, 255));
    if (!k.adversarial)
    {
        k.n = int(c.log_uniform(1000, nmax));
        log.label("mode:fit");
    }
    else
    {
        k.n = int(c.int_in(8, 400));
        log.label("mode:adversarial");
        int na = int(c.int_in(1, 4));
        bool pair = c.boolean(0.5);
        static double const vals[] = {0.0,
                                      1.1102230246251565e-16,  // 2^-53
                                      1 - 1.1102230246251565e-16,
                                      0.75,
                                      0.25,
                                      0.5,
                                      2.220446049250313e-16,
                                      1 - 2.220446049250313e-16};
        long range = long(k.n) * dps;
        for (int i = 0; i < na; ++i)
        {
            long at = long(c.int_in(0, range - 1));
            double v = vals[c.int_in(0, 7)];
            k.adv.add(at, v);
            if (pair)
            {
                // neighbour draw forced too (Box-Muller uses a pair)
                double v2 = vals[c.int_in(0, 7)];
                k.adv.add(at + 1, v2);
            }
        }
        k.adv.finish();
        for (int i = 0; i < k.adv.n; ++i)
        {
            log.mix(k.adv.at[i]);
            log.mix(k.adv.val[i]);
        }
        if (log.want_desc)
        {
            std::string s = "[";
            for (int i = 0; i < k.adv.n; ++i)
                s += (i ? ", " : "") + std::to_string(k.adv.at[i]) + ":"
                     + num(k.adv.val[i]);
            log.ds("forced_draws", s + "]");
        }
    }
    log.mix(k.n);
    log.mix(k.s.seed);
    log.mix(k.s.subseq);
    log.d("n", k.n);
    log.d("seed", k.s.seed);
    log.d("subseq", k.s.subseq);
    return k;
}

// run -> decide with the re-test rule
template<class Run>
Verdict decide(CaseLog& log, Common const& k, bool excluded, Run&& run)
{
    Attempt a = run(k.s, k.adv, k.n);
    if (a.hard)
        return log.fail(a.msg, a.key);
    if (a.stat)
    {
        log.count("stat_first_fail");
        Stream s2 = k.s;
        s2.subseq += 1000;
        AdvPlan none;
        Attempt b = run(s2, none, k.n);
        if (b.hard)
            return log.fail(b.msg, b.key);
        if (b.stat)
            return log.fail("statistical test failed on two independent "
                            "streams: "
                            + a.stat_msg + " || retest: " + b.stat_msg);
        log.count("stat_retest_cleared");
    }
    if (k.adversarial)
    {
        log.count("forced_draws_consumed", a.adv_used);
        log.nontrivial = a.adv_used > 0;
    }
    else
    {
        log.nontrivial = k.n >= 1000 && !excluded;
        if (excluded)
            log.label("unit-test-constant");
    }
    return Verdict::pass;
}

bool near(double x, double ref)
{
    return std::fabs(x - ref) <= 0.01 * std::fabs(ref);
}

//---------------------------------------------------------------------------//
Verdict k_uniform(Choices& c, CaseLog& log)
{
    log.label("uniform");
    double a = 0;
    switch (c.int_in(0, 2))
    {
        case 0: a = 0; break;
        default: a = c.signed_log_uniform(1e-3, 1e6); break;
    }
    double delta = c.log_uniform(1e-6, 1e6);
    bool degenerate = c.boolean(0.04);
    double b = degenerate ? a : a + delta;
    if (!(b >= a))
        b = a;
    log.mix(a);
    log.mix(b);
    log.ds("kind", "uniform");
    log.d("a", num(a));
    log.d("b", num(b));
    Common k = decode_common(c, log, 1);
    bool excl = (a == 0 && near(b, 5)) || (a == 0 && near(b, 1))
                || (near(a, 1) && near(b, 2));
    if (b == a)
        log.label("uniform:degenerate");
    auto run = [&](Stream s, AdvPlan const& adv, int n) {
        Attempt r;
        EngineHolder h(s, adv);
        UniformRealDistribution<double> d(a, b);
        if (d.a() != a)
            r.fail("a() accessor wrong");
        stats::UBins ub;
        long hit_b = 0;
        for (int i = 0; i < n && !r.hard; ++i)
        {
            long c0 = h.e.canon;
            double x = d(h.e);
            if (h.e.canon - c0 != 1)
                r.fail("uniform used " + std::to_string(h.e.canon - c0)
                       + " draws (1 expected)");
            // documented [a, b); the end point b itself is reachable by
            // rounding of fma(delta, u, a) (1 ulp) and is tolerated
            if (!(x >= a && x <= b))
                r.fail("uniform sample " + num(x) + " outside [a,b]");
            if (x == b && b > a)
                ++hit_b;
            if (b > a)
                ub.add((ld(x) - a) / (ld(b) - a));
        }
        if (hit_b)
            log.count("uniform_hit_upper_end", hit_b);
        if (!k.adversarial && b > a && !r.hard)
            r.gof("uniform", ub.test());
        r.adv_used = h.e.next;
        return r;
    };
    return decide(log, k, excl || b == a, run);
}

//---------------------------------------------------------------------------//
Verdict k_exponential(Choices& c, CaseLog& log)
{
    log.label("exponential");
    double lambda = c.log_uniform(1e-6, 1e6);
    log.mix(lambda);
    log.ds("kind", "exponential");
    log.d("lambda", num(lambda));
    Common k = decode_common(c, log, 1);
    auto run = [&](Stream s, AdvPlan const& adv, int n) {
        Attempt r;
        EngineHolder h(s, adv);
        ExponentialDistribution<double> d(lambda);
        stats::UBins ub;
        ld sum = 0;
        for (int i = 0; i < n && !r.hard; ++i)
        {
            long c0 = h.e.canon;
            double x = d(h.e);
            if (h.e.canon - c0 != 1)
                r.fail("exponential used != 1 draw");
            if (!(x >= 0))
                r.fail("exponential sample " + num(x) + " is negative/NaN");
            else if (!std::isfinite(x))
            {
                if (h.e.last_forced && h.e.last_value == 0)
                    r.fail("exponential returns +inf when the canonical "
                           "draw is 0 (-log(0)/lambda)",
                           kFLogZero);
                else
                    r.fail("exponential sample is infinite");
            }
            ub.add(-expm1l(-ld(lambda) * x));
            sum += x;
        }
        if (!k.adversarial && !r.hard)
        {
            r.gof("exponential", ub.test());
            // sum of n Exp(lambda) is Gamma(n, 1/lambda) exactly
            r.pval("exponential sum vs Gamma(n)",
                   stats::gamma_two_sided(n, sum * lambda));
        }
        r.adv_used = h.e.next;
        return r;
    };
    return decide(log, k, near(lambda, 0.25), run);
}

//---------------------------------------------------------------------------//
Verdict k_normal(Choices& c, CaseLog& log)
{
    log.label("normal");
    double mu[2], sg[2];
    for (int i = 0; i < 2; ++i)
    {
        mu[i] = c.boolean(0.3) ? 0.0 : c.signed_log_uniform(1e-3, 1e6);
        sg[i] = c.log_uniform(1e-6, 1e6);
        log.mix(mu[i]);
        log.mix(sg[i]);
    }
    // re-parametrisation between draws: every `period` samples the
    // distribution is move-assigned new parameters (keeps the spare value)
    int period = int(c.int_in(0, 3));
    log.mix(period);
    log.ds("kind", "normal");
    log.dv("mean", mu, 2);
    log.dv("stddev", sg, 2);
    log.d("reparam_period", period);
    if (period)
        log.label("normal:reparam");
    Common k = decode_common(c, log, 1);
    bool excl = period == 0 && mu[0] == 0 && (near(sg[0], 1) || near(sg[0], 0.5));
    auto run = [&](Stream s, AdvPlan const& adv, int n) {
        Attempt r;
        EngineHolder h(s, adv);
        NormalDistribution<double> d(mu[0], sg[0]);
        int cur = 0;
        stats::UBins ub;
        ld sz = 0, szz = 0;
        for (int i = 0; i < n && !r.hard; ++i)
        {
            if (period && i > 0 && i % period == 0)
            {
                cur ^= 1;
                d = NormalDistribution<double>(mu[cur], sg[cur]);
            }
            bool f0 = h.e.any_forced_zero;
            double x = d(h.e);
            if (!std::isfinite(x))
            {
                if (h.e.any_forced_zero)
                    r.fail("normal returns " + num(x)
                               + " when a canonical draw is 0 "
                                 "(sqrt(-2 log 0))",
                           kFLogZero);
                else
                    r.fail("normal sample not finite: " + num(x));
                break;
            }
            (void)f0;
            ld z = (ld(x) - mu[cur]) / sg[cur];
            ub.add(stats::norm_cdf(z));
            sz += z;
            szz += z * z;
        }
        if (!r.hard)
        {
            long expect = 2 * ((n + 1) / 2);
            if (h.e.canon != expect)
                r.fail("normal used " + std::to_string(h.e.canon)
                       + " canonical draws for " + std::to_string(n)
                       + " samples (2 per pair expected)");
        }
        if (!k.adversarial && !r.hard)
        {
            r.gof("normal", ub.test());
            r.pval("normal mean (sum z ~ N(0,n))",
                   stats::norm_two_sided(sz / sqrtl(ld(n))));
            // sum z^2 ~ chi2_n
            r.pval("normal variance (sum z^2 ~ chi2_n)",
                   stats::gamma_two_sided(ld(n) / 2, szz / 2));
        }
        r.adv_used = h.e.next;
        return r;
    };
    return decide(log, k, excl, run);
}

//---------------------------------------------------------------------------//
Verdict k_gamma(Choices& c, CaseLog& log)
{
    log.label("gamma");
    double alpha;
    switch (c.pick({3, 3, 1, 1, 1, 1}))
    {
        case 0:
            alpha = c.log_uniform(1e-3, 1);
            log.label("gamma:alpha<1");
            break;
        case 1:
            alpha = c.log_uniform(1, 1e3);
            log.label("gamma:alpha>1");
            break;
        case 2:
            alpha = 1;
            log.label("gamma:alpha=1");
            break;
        case 3:
            alpha = c.ulp_neighbour(1.0, 2);
            log.label("gamma:alpha~1ulp");
            break;
        case 4:
            alpha = c.real_in(0.9, 1.0);
            log.label("gamma:alpha<1");
            break;
        default:
            alpha = c.real_in(1.0, 1.1);
            log.label("gamma:alpha>1");
            break;
    }
    double beta = c.log_uniform(1e-3, 1e3);
    log.mix(alpha);
    log.mix(beta);
    log.ds("kind", "gamma");
    log.d("alpha", num(alpha));
    log.d("beta", num(beta));
    Common k = decode_common(c, log, 4, alpha > 30 ? 6000 : 20000);
    bool excl = (near(alpha, 9) && near(beta, 0.5))
                || (near(alpha, 0.5) && near(beta, 1));
    // samples below this (in units of beta) are treated as left-censored:
    // x = d v beta u^(1/alpha) underflows for small alpha
    ld const tcens = 1e-290L;
    double const umin_raw = double(stats::gamma_p(alpha, tcens));
    double const umin = umin_raw < 1e-12 ? 0 : umin_raw;
    auto run = [&](Stream s, AdvPlan const& adv, int n) {
        Attempt r;
        EngineHolder h(s, adv);
        GammaDistribution<double> d(alpha, beta);
        stats::UBins ub;
        ld sum = 0;
        long maxdraw = 0, zeros = 0;
        for (int i = 0; i < n && !r.hard; ++i)
        {
            long c0 = h.e.canon;
            double x = d(h.e);
            maxdraw = std::max(maxdraw, h.e.canon - c0);
            if (!(x >= 0))
                r.fail("gamma sample " + num(x) + " negative/NaN",
                       (std::isnan(x) && h.e.any_forced_zero) ? kFLogZero
                                                              : nullptr);
            else if (!std::isfinite(x))
            {
                if (h.e.any_forced_zero)
                    r.fail("gamma returns inf when a canonical draw is 0",
                           kFLogZero);
                else
                    r.fail("gamma sample infinite");
            }
            if (x == 0)
                ++zeros;
            ld y = ld(x) / beta;
            ub.add(stats::gamma_p(alpha, std::max(y, tcens)));
            sum += y;
        }
        if (zeros)
        {
            log.count("gamma_underflow_to_zero", zeros);
            if (umin_raw < 1e-40 && !h.e.any_forced_zero && !r.hard)
                r.fail("gamma returned exactly 0 although P(x<1e-290) ~ 0");
        }
        // Marsaglia-Tsang accepts > 95%: each try uses <= 2 normal draws + 1;
        // 200 draws in one sample has probability < 1e-60
        if (maxdraw > 200)
            r.stat_fail("gamma used " + std::to_string(maxdraw)
                        + " draws for one sample");
        if (!k.adversarial && !r.hard)
        {
            r.gof("gamma", ub.test(umin));
            // sum of n Gamma(alpha, beta) is Gamma(n alpha, beta) exactly
            r.pval("gamma sum vs Gamma(n*alpha)",
                   stats::gamma_two_sided(ld(n) * alpha, sum, tcens));
        }
        r.adv_used = h.e.next;
        return r;
    };
    return decide(log, k, excl, run);
}

//---------------------------------------------------------------------------//
Verdict k_poisson(Choices& c, CaseLog& log)
{
    log.label("poisson");
    double lambda;
    switch (c.pick({2, 3, 4, 1, 2, 2}))
    {
        case 0:
            lambda = c.log_uniform(1e-6, 1e-2);
            log.label("poisson:tiny");
            break;
        case 1:
            lambda = c.log_uniform(1e-2, 14);
            log.label("poisson:knuth");
            break;
        case 2:
            lambda = c.real_in(14.4, 17.6);
            log.label("poisson:switch+-10%");
            break;
        case 3:
            lambda = c.ulp_neighbour(16.0, 2);
            log.label("poisson:switch+-2ulp");
            break;
        case 4:
            lambda = c.log_uniform(17.6, 300);
            log.label("poisson:normal");
            break;
        default:
            lambda = c.log_uniform(300, 1e6);
            log.label("poisson:normal-large");
            break;
    }
    log.mix(lambda);
    log.ds("kind", "poisson");
    log.d("lambda", num(lambda));
    bool knuth = lambda <= 16;
    Common k = decode_common(c, log, knuth ? int(lambda) + 2 : 1);
    bool excl = near(lambda, 4) || near(lambda, 64);
    double const sigma = std::sqrt(lambda);

    auto run = [&](Stream s, AdvPlan const& adv, int n) {
        Attempt r;
        EngineHolder h(s, adv);
        PoissonDistribution<double> d(lambda);
        // cells
        long lo = 0, hi;
        if (knuth)
            hi = long(lambda + 12 * sigma + 30);
        else
        {
            lo = std::max(0L, long(std::floor(lambda - 8 * sigma)) - 1);
            hi = long(std::ceil(lambda + 8 * sigma)) + 1;
        }
        long ncell = hi - lo + 1;
        std::vector<double> cnt(ncell + 2, 0.0);  // [below] cells [above]
        double const support_hi = lambda + 40 * sigma + 40;
        ld sum = 0;
        // reference model of the internal Box-Muller state (for F9)
        bool ref_spare = false;
        double ref_spare_val = 0;
        for (int i = 0; i < n && !r.hard; ++i)
        {
            if (!knuth)
            {
                // Predict the deviate from the same stream BEFORE calling:
                // converting v <= -1, v >= 2^32 or NaN to unsigned is
                // undefined (UBSan aborts the process)
                double v;
                bool from_zero = false;
                if (ref_spare)
                {
                    v = std::fma(ref_spare_val, sigma, lambda) + 0.5;
                    ref_spare = false;
                }
                else
                {
                    auto snap = h.snapshot();
                    double u1 = generate_canonical<double>(h.e);
                    double u2 = generate_canonical<double>(h.e);
                    from_zero = (u2 == 0);
                    h.restore(snap);
                    double theta = 2 * 3.14159265358979323846 * u1;
                    double rr = std::sqrt(-2 * std::log(u2));
                    ref_spare_val = rr * std::cos(theta);
                    ref_spare = true;
                    v = std::fma(rr * std::sin(theta), sigma, lambda) + 0.5;
                }
                bool bad = std::isnan(v) || v <= -1.0 || v >= 4294967296.0;
                if (bad
                    && (std::isnan(v) || std::isinf(v) || from_zero
                        || !std::isfinite(ref_spare_val)))
                {
                    r.fail("poisson(lambda>16): normal deviate is " + num(v)
                               + " because a canonical draw is 0; cast to "
                                 "unsigned is undefined",
                           kFLogZero);
                    break;
                }
                if (bad && kF9Open)
                {
                    r.fail("poisson(lambda=" + num(lambda)
                               + "): normal deviate+0.5 = " + num(v)
                               + " <= -1 is cast to unsigned (undefined; "
                                 "4294967295 in practice) at sample "
                               + std::to_string(i),
                           kF9);
                    break;
                }
            }
            long c0 = h.e.canon;
            unsigned kk = d(h.e);
            long used = h.e.canon - c0;
            if (double(kk) > support_hi)
            {
                r.fail("poisson sample " + std::to_string(kk)
                       + " is absurd for lambda=" + num(lambda));
                break;
            }
            if (knuth && used != long(kk) + 1)
                r.fail("poisson(Knuth) returned " + std::to_string(kk)
                       + " after " + std::to_string(used)
                       + " draws (k+1 expected)");
            if (!knuth && used != 0 && used != 2)
                r.fail("poisson(normal) used " + std::to_string(used)
                       + " draws");
            long kc = long(kk);
            size_t cell = kc < lo ? 0 : kc > hi ? size_t(ncell + 1)
                                                : size_t(kc - lo + 1);
            cnt[cell] += 1;
            sum += kk;
        }
        if (!k.adversarial && !r.hard)
        {
            std::vector<ld> p(ncell + 2, 0.0L);
            ld tot = 0;
            if (knuth)
            {
                for (long j = 0; j < ncell; ++j)
                {
                    p[j + 1] = stats::poisson_pmf(lo + j, lambda);
                    tot += p[j + 1];
                }
                p[ncell + 1] = std::max<ld>(0, 1 - tot);
            }
            else
            {
                // documented construction: N(lambda, sqrt(lambda)) rounded
                // to the nearest integer, restricted to the support
                auto Phi = [&](ld x) {
                    return stats::norm_cdf((x - lambda) / sigma);
                };
                ld prev = lo > 0 ? Phi(lo - 0.5L) : 0;
                p[0] = prev;
                for (long j = 0; j < ncell; ++j)
                {
                    ld cur = Phi(lo + j + 0.5L);
                    p[j + 1] = cur - prev;
                    prev = cur;
                }
                p[ncell + 1] = 1 - prev;
            }
            r.gof(knuth ? "poisson(Knuth) vs Poisson PMF"
                        : "poisson(normal) vs round(N(l,sqrt l)) PMF",
                  stats::test_discrete(p, cnt));
            if (knuth)
                r.pval("poisson sum vs Poisson(n*lambda)",
                       stats::poisson_two_sided(sum, ld(n) * lambda));
            else
            {
                // mean lambda (Sheppard: rounding does not shift the mean
                // for sigma >= 4), variance lambda + 1/12
                ld z = (sum - ld(n) * lambda)
                       / sqrtl(ld(n) * (lambda + 1.0L / 12));
                r.pval("poisson(normal) mean z-test",
                       stats::norm_two_sided(z));
            }
        }
        r.adv_used = h.e.next;
        return r;
    };
    return decide(log, k, excl, run);
}

//---------------------------------------------------------------------------//
Verdict k_reciprocal(Choices& c, CaseLog& log)
{
    log.label("reciprocal");
    double a = c.log_uniform(1e-6, 1e6);
    double ratio = 1 + c.log_uniform(1e-6, 1e12);
    double b = a * ratio;
    bool reversed = c.boolean(0.2);  // "allowable for bounds out of order"
    bool single = c.boolean(0.1);  // ReciprocalDistribution(a) == [a, 1)
    if (single)
    {
        a = c.log_uniform(1e-9, 1);
        b = 1;
        reversed = false;
    }
    if (reversed)
    {
        std::swap(a, b);
        log.label("reciprocal:reversed");
    }
    log.mix(a);
    log.mix(b);
    log.mix(int(single));
    log.ds("kind", "reciprocal");
    log.d("a", num(a));
    log.d("b", num(b));
    log.d("single_arg", single);
    Common k = decode_common(c, log, 1);
    ld const L = logl(ld(b) / a);
    double lo = std::min(a, b), hi = std::max(a, b);
    // rounding model: the exponent log(b/a)*u carries ~1 ulp relative error
    // => relative error |L| * 2^-53 in exp(), plus 2 roundings
    double tol = (double(fabsl(L)) + 4) * kEps;
    auto run = [&](Stream s, AdvPlan const& adv, int n) {
        Attempt r;
        EngineHolder h(s, adv);
        // single-argument form is documented as the interval [a, 1)
        ReciprocalDistribution<double> d
            = single ? ReciprocalDistribution<double>(a)
                     : ReciprocalDistribution<double>(a, b);
        stats::UBins ub;
        for (int i = 0; i < n && !r.hard; ++i)
        {
            long c0 = h.e.canon;
            double x = d(h.e);
            if (h.e.canon - c0 != 1)
                r.fail("reciprocal used != 1 draw");
            if (!(x >= lo * (1 - tol) && x <= hi * (1 + tol)))
                r.fail("reciprocal sample " + num(x) + " outside ["
                       + num(lo) + "," + num(hi) + "]");
            // CDF in terms of the generating construction: the single-arg
            // form samples 1 * (a/1)^u
            ld u = single ? logl(ld(x)) / logl(ld(a)) : logl(ld(x) / a) / L;
            if (single)
                u = 1 - u;  // increasing CDF on [a,1)
            ub.add(u);
        }
        if (!k.adversarial && !r.hard)
            r.gof("reciprocal", ub.test());
        r.adv_used = h.e.next;
        return r;
    };
    return decide(log, k, near(lo, 0.1) && near(hi, 0.9), run);
}

//---------------------------------------------------------------------------//
Verdict k_invsq(Choices& c, CaseLog& log)
{
    log.label("inverse-square");
    double a = c.log_uniform(1e-6, 1e6);
    double b = a * (1 + c.log_uniform(1e-6, 1e12));
    if (c.boolean(0.04))
        b = a;
    log.mix(a);
    log.mix(b);
    log.ds("kind", "inverse-square");
    log.d("a", num(a));
    log.d("b", num(b));
    Common k = decode_common(c, log, 1);
    auto run = [&](Stream s, AdvPlan const& adv, int n) {
        Attempt r;
        EngineHolder h(s, adv);
        InverseSquareDistribution<double> d(a, b);
        stats::UBins ub;
        for (int i = 0; i < n && !r.hard; ++i)
        {
            long c0 = h.e.canon;
            double x = d(h.e);
            if (h.e.canon - c0 != 1)
                r.fail("inverse-square used != 1 draw");
            // a*b, the fma and the division: 3 roundings
            if (!(x >= a * (1 - 4 * kEps) && x <= b * (1 + 4 * kEps)))
                r.fail("inverse-square sample " + num(x) + " outside ["
                       + num(a) + "," + num(b) + "]");
            if (b > a)
                ub.add((1 / ld(a) - 1 / ld(x)) / (1 / ld(a) - 1 / ld(b)));
        }
        if (!k.adversarial && b > a && !r.hard)
            r.gof("inverse-square", ub.test());
        r.adv_used = h.e.next;
        return r;
    };
    return decide(log, k, (near(a, 0.1) && near(b, 0.9)) || b == a, run);
}

//---------------------------------------------------------------------------//
Verdict k_radial(Choices& c, CaseLog& log)
{
    log.label("radial");
    double R = c.log_uniform(1e-9, 1e9);
    log.mix(R);
    log.ds("kind", "radial");
    log.d("radius", num(R));
    Common k = decode_common(c, log, 1);
    auto run = [&](Stream s, AdvPlan const& adv, int n) {
        Attempt r;
        EngineHolder h(s, adv);
        RadialDistribution<double> d(R);
        if (d.radius() != R)
            r.fail("radius() accessor wrong");
        stats::UBins ub;
        for (int i = 0; i < n && !r.hard; ++i)
        {
            long c0 = h.e.canon;
            double x = d(h.e);
            if (h.e.canon - c0 != 1)
                r.fail("radial used != 1 draw");
            // cbrt of libm is accurate to 1 ulp (not correctly rounded), the
            // product adds half an ulp: r may exceed R by <= 2 ulp
            if (!(x >= 0 && x <= R * (1 + 2 * kEps)))
                r.fail("radial sample " + num(x) + " outside [0,R]");
            if (x > R)
                log.count("radial_above_R_by_rounding");
            ld t = ld(x) / R;
            ub.add(t * t * t);
        }
        if (!k.adversarial && !r.hard)
            r.gof("radial", ub.test());
        r.adv_used = h.e.next;
        return r;
    };
    return decide(log, k, near(R, 5), run);
}

//---------------------------------------------------------------------------//
Verdict k_isotropic(Choices& c, CaseLog& log)
{
    log.label("isotropic");
    log.ds("kind", "isotropic");
    Common k = decode_common(c, log, 2);
    auto run = [&](Stream s, AdvPlan const& adv, int n) {
        Attempt r;
        EngineHolder h(s, adv);
        IsotropicDistribution<double> d;
        stats::UBins umu, uphi;
        std::vector<double> joint(32, 0.0);
        for (int i = 0; i < n && !r.hard; ++i)
        {
            long c0 = h.e.canon;
            auto v = d(h.e);
            if (h.e.canon - c0 != 2)
                r.fail("isotropic used != 2 draws");
            ld nn = sqrtl(ld(v[0]) * v[0] + ld(v[1]) * v[1]
                          + ld(v[2]) * v[2]);
            // sqrt(1-c^2), sin^2+cos^2: a few ulp; DESIGN tolerance 1e-14
            if (!(fabsl(nn - 1) <= 1e-14L))
                r.fail("isotropic direction has norm-1 = "
                       + num(double(nn - 1)));
            if (!(v[2] >= -1 && v[2] <= 1))
                r.fail("isotropic mu outside [-1,1]");
            ld fmu = (ld(v[2]) + 1) / 2;
            ld phi = atan2l(v[1], v[0]);
            if (phi < 0)
                phi += 2 * M_PIl;
            ld fphi = phi / (2 * M_PIl);
            umu.add(fmu);
            uphi.add(fphi);
            int bm = std::min(3, int(fmu * 4));
            int bp = std::min(7, int(fphi * 8));
            joint[bm * 8 + bp] += 1;
        }
        if (!k.adversarial && !r.hard)
        {
            r.gof("isotropic mu", umu.test());
            r.gof("isotropic phi", uphi.test());
            std::vector<ld> p(32, 1.0L / 32);
            r.gof("isotropic joint (mu x phi, 4x8)",
                  stats::test_discrete(p, joint));
        }
        r.adv_used = h.e.next;
        return r;
    };
    return decide(log, k, false, run);
}

//---------------------------------------------------------------------------//
Verdict k_box(Choices& c, CaseLog& log)
{
    log.label("uniform-box");
    double lo[3], hi[3];
    bool flat = false;
    for (int i = 0; i < 3; ++i)
    {
        lo[i] = c.boolean(0.2) ? 0.0 : c.signed_log_uniform(1e-3, 1e6);
        bool deg = c.boolean(0.08);
        hi[i] = deg ? lo[i] : lo[i] + c.log_uniform(1e-6, 1e6);
        if (!(hi[i] > lo[i]))
        {
            hi[i] = lo[i];
            flat = true;
        }
        log.mix(lo[i]);
        log.mix(hi[i]);
    }
    log.ds("kind", "uniform-box");
    log.dv("lower", lo, 3);
    log.dv("upper", hi, 3);
    if (flat)
        log.label("uniform-box:flat-axis");
    Common k = decode_common(c, log, 3);
    bool excl = near(lo[0], -1) && near(lo[1], -2) && near(lo[2], -3)
                && near(hi[0], 3) && near(hi[1], 6) && near(hi[2], 9);
    auto run = [&](Stream s, AdvPlan const& adv, int n) {
        Attempt r;
        EngineHolder h(s, adv);
        UniformBoxDistribution<double> d({lo[0], lo[1], lo[2]},
                                         {hi[0], hi[1], hi[2]});
        stats::UBins ub[3];
        std::vector<double> oct(8, 0.0);
        for (int i = 0; i < n && !r.hard; ++i)
        {
            long c0 = h.e.canon;
            auto v = d(h.e);
            if (h.e.canon - c0 != 3)
                r.fail("uniform-box used != 3 draws");
            int o = 0;
            for (int ax = 0; ax < 3; ++ax)
            {
                if (!(v[ax] >= lo[ax] && v[ax] <= hi[ax]))
                    r.fail("uniform-box coordinate " + num(v[ax])
                           + " outside its axis range");
                if (hi[ax] > lo[ax])
                {
                    ld u = (ld(v[ax]) - lo[ax]) / (ld(hi[ax]) - lo[ax]);
                    ub[ax].add(u);
                    if (u >= 0.5L)
                        o |= 1 << ax;
                }
            }
            oct[o] += 1;
        }
        if (!k.adversarial && !r.hard)
        {
            static char const* nm[]
                = {"uniform-box x", "uniform-box y", "uniform-box z"};
            for (int ax = 0; ax < 3; ++ax)
                if (hi[ax] > lo[ax])
                    r.gof(nm[ax], ub[ax].test());
            if (!flat)
            {
                std::vector<ld> p(8, 0.125L);
                r.gof("uniform-box octants", stats::test_discrete(p, oct));
            }
        }
        r.adv_used = h.e.next;
        return r;
    };
    return decide(log, k, excl, run);
}

//---------------------------------------------------------------------------//
Verdict k_bernoulli(Choices& c, CaseLog& log)
{
    log.label("bernoulli");
    bool two = c.boolean(0.4);
    double p = 0, st = 0, sf = 0;
    if (!two)
    {
        switch (c.pick({1, 1, 2, 2, 4}))
        {
            case 0: p = 0; break;
            case 1: p = 1; break;
            case 2: p = c.log_uniform(1e-12, 1e-2); break;
            case 3: p = 1 - c.log_uniform(1e-12, 1e-2); break;
            default: p = c.real_in53(0, 1); break;
        }
        log.mix(p);
    }
    else
    {
        log.label("bernoulli:weights");
        st = c.boolean(0.1) ? 0.0 : c.log_uniform(1e-6, 1e6);
        sf = c.boolean(0.1) ? 0.0 : c.log_uniform(1e-6, 1e6);
        if (st == 0 && sf == 0)
            sf = 1;
        log.mix(st);
        log.mix(sf);
    }
    ld pref = two ? ld(st) / (ld(st) + ld(sf)) : ld(p);
    if (pref == 0)
        log.label("bernoulli:p=0");
    else if (pref == 1)
        log.label("bernoulli:p=1");
    log.ds("kind", "bernoulli");
    log.d("p_true", num(double(pref)));
    log.d("from_weights", two);
    Common k = decode_common(c, log, 1);
    bool excl = (!two && near(p, 0.25)) || (two && near(st, 1) && near(sf, 9));
    auto run = [&](Stream s, AdvPlan const& adv, int n) {
        Attempt r;
        EngineHolder h(s, adv);
        BernoulliDistribution d = two ? BernoulliDistribution(st, sf)
                                      : BernoulliDistribution(p);
        if (fabsl(ld(d.p()) - pref) > 2 * kEps)
            r.fail("BernoulliDistribution::p() = " + num(d.p())
                   + " differs from the definition " + num(double(pref)));
        long trues = 0;
        for (int i = 0; i < n && !r.hard; ++i)
        {
            long c0 = h.e.canon;
            bool b = d(h.e);
            if (h.e.canon - c0 != 1)
                r.fail("bernoulli used != 1 draw");
            trues += b;
        }
        // support: p = 0 never true, p = 1 always true (for every stream)
        if (pref == 0 && trues != 0)
            r.fail("bernoulli(p=0) returned true");
        if (pref == 1 && trues != n)
            r.fail("bernoulli(p=1) returned false");
        if (!k.adversarial && !r.hard)
        {
            double b = stats::binom_tail_bound(trues, n, double(pref));
            if (2 * b < kAlpha)
                r.stat_fail("bernoulli: " + std::to_string(trues) + "/"
                            + std::to_string(n) + " true for p="
                            + num(double(pref)) + " (Chernoff bound "
                            + num(2 * b) + ")");
        }
        r.adv_used = h.e.next;
        return r;
    };
    return decide(log, k, excl, run);
}

//---------------------------------------------------------------------------//
Verdict k_rejection(Choices& c, CaseLog& log)
{
    log.label("rejection");
    double fmax = c.boolean(0.3) ? 1.0 : c.log_uniform(1e-6, 1e6);
    double frac;
    switch (c.pick({1, 1, 2, 4}))
    {
        case 0: frac = 0; break;
        case 1: frac = 1; break;
        case 2: frac = c.log_uniform(1e-12, 1e-2); break;
        default: frac = c.real_in53(0, 1); break;
    }
    double f = frac * fmax;
    if (f > fmax)
        f = fmax;
    bool one_arg = fmax == 1.0 && c.boolean(0.5);
    log.mix(f);
    log.mix(fmax);
    log.mix(int(one_arg));
    log.ds("kind", "rejection");
    log.d("f", num(f));
    log.d("fmax", num(fmax));
    if (f == 0)
        log.label("rejection:f=0");
    else if (f == fmax)
        log.label("rejection:f=fmax");
    Common k = decode_common(c, log, 1);
    ld paccept = ld(f) / fmax;
    auto run = [&](Stream s, AdvPlan const& adv, int n) {
        Attempt r;
        EngineHolder h(s, adv);
        RejectionSampler<double> d
            = one_arg ? RejectionSampler<double>(f)
                      : RejectionSampler<double>(f, fmax);
        long acc = 0;
        for (int i = 0; i < n && !r.hard; ++i)
        {
            long c0 = h.e.canon;
            bool reject = d(h.e);
            if (h.e.canon - c0 != 1)
                r.fail("rejection sampler used != 1 draw");
            if (!reject)
            {
                ++acc;
                // a point with zero target density must never be accepted
                if (f == 0)
                {
                    if (h.e.last_forced && h.e.last_value == 0)
                        r.fail("RejectionSampler(f=0) accepts when the "
                               "canonical draw is 0 (0 < fmax*0 is false)",
                               kFRejZero);
                    else
                        r.fail("RejectionSampler(f=0) accepted");
                }
            }
            else if (f == fmax && !(h.e.last_forced))
            {
                // f/fmax = 1: reject iff fmax < fmax*u, impossible for u<1
                r.fail("RejectionSampler(f=fmax) rejected");
            }
        }
        if (!k.adversarial && !r.hard)
        {
            double b = stats::binom_tail_bound(acc, n, double(paccept));
            if (2 * b < kAlpha)
                r.stat_fail("rejection: accepted " + std::to_string(acc)
                            + "/" + std::to_string(n) + " for f/fmax="
                            + num(double(paccept)) + " (Chernoff bound "
                            + num(2 * b) + ")");
        }
        r.adv_used = h.e.next;
        return r;
    };
    return decide(log, k, false, run);
}

//---------------------------------------------------------------------------//
Verdict k_selector(Choices& c, CaseLog& log)
{
    log.label("selector");
    int n_w = int(c.int_in(1, 64));
    int pattern = int(c.pick({4, 3, 2, 2, 2}));
    bool normalise = c.boolean(0.4);  // total given as the default 1
    bool by_id = c.boolean(0.3);
    static char const* pl[] = {"selector:random",
                               "selector:zeros",
                               "selector:dominant",
                               "selector:trailing-zeros",
                               "selector:leading-zeros"};
    log.label(pl[pattern]);
    log.ds("kind", "selector");
    // stream / mode first: the weights come last so that running out of
    // bytes only flattens trailing weights
    Common k = decode_common(c, log, 1);
    std::vector<double> w(n_w);
    for (int i = 0; i < n_w; ++i)
    {
        // 16-bit log-uniform weight in [1e-3, 1e3]
        unsigned raw = unsigned(c.bits(2));
        double v = 1e-3 * std::exp(std::log(1e6) * (raw / 65536.0));
        switch (pattern)
        {
            case 1:
                if ((raw & 7u) >= 5u)  // 37.5% zeros (low bits of the draw)
                    v = 0;
                break;
            case 2:
                if (i == n_w / 2)
                    v *= 1e12;
                break;
            case 3:
                if (i >= (n_w + 1) / 2)
                    v = 0;
                break;
            case 4:
                if (i < n_w / 2)
                    v = 0;
                break;
            default: break;
        }
        w[i] = v;
    }
    double tot = 0;
    for (double v : w)
        tot += v;
    if (!(tot > 0))
    {
        w[0] = 1;
        tot = 0;
        for (double v : w)
            tot += v;
    }
    if (normalise)
    {
        for (double& v : w)
            v /= tot;
        log.label("selector:total-default-1");
    }
    for (double v : w)
        log.mix(v);
    log.mix(int(normalise));
    log.mix(int(by_id));
    log.dv("weights", w.data(), n_w);
    log.d("normalised", normalise);
    log.d("opaque_id", by_id);
    if (n_w == 1)
        log.label("selector:size1");
    else if (n_w > 32)
        log.label("selector:size>32");
    std::vector<ld> p(n_w);
    ld ltot = 0;
    for (double v : w)
        ltot += v;
    for (int i = 0; i < n_w; ++i)
        p[i] = w[i] / ltot;
    double total_arg = 0;
    for (double v : w)
        total_arg += v;  // same summation order as the debug check
    auto run = [&](Stream s, AdvPlan const& adv, int n) {
        Attempt r;
        EngineHolder h(s, adv);
        std::vector<double> cnt(n_w, 0.0);
        auto fw = [&w](size_type i) { return w[i]; };
        auto fid = [&w](ElementId i) { return w[i.get()]; };
        auto sel_n = make_selector(fw, size_type(n_w), total_arg);
        auto sel_1 = make_selector(fw, size_type(n_w));
        auto sid_n = make_selector(fid, ElementId(size_type(n_w)), total_arg);
        auto sid_1 = make_selector(fid, ElementId(size_type(n_w)));
        for (int i = 0; i < n && !r.hard; ++i)
        {
            long c0 = h.e.canon;
            size_type idx;
            if (by_id)
                idx = (normalise ? sid_1(h.e) : sid_n(h.e)).get();
            else
                idx = normalise ? sel_1(h.e) : sel_n(h.e);
            if (h.e.canon - c0 != 1)
                r.fail("selector used != 1 draw");
            if (!(idx < size_type(n_w)))
            {
                r.fail("selector returned index " + std::to_string(idx)
                       + " >= size " + std::to_string(n_w));
                break;
            }
            if (!(w[idx] > 0))
            {
                if (h.e.last_forced && idx == size_type(n_w - 1))
                    r.fail("selector returned the last entry (weight 0) for "
                           "canonical draw "
                               + num(h.e.last_value),
                           kFSelZero);
                else
                    r.fail("selector returned index " + std::to_string(idx)
                           + " whose weight is 0");
                break;
            }
            cnt[idx] += 1;
        }
        if (!k.adversarial && !r.hard && n_w > 1)
            r.gof("selector", stats::test_discrete(p, cnt, true));
        r.adv_used = h.e.next;
        return r;
    };
    return decide(log, k, false, run);
}

//---------------------------------------------------------------------------//
// generate_canonical on the real XorwowRngEngine (its own specialisation)
Verdict k_canonical(Choices& c, CaseLog& log)
{
    log.label("canonical");
    log.ds("kind", "canonical(xorwow)");
    Common k = decode_common(c, log, 1);
    k.adversarial = false;  // no forced draws on the raw engine
    if (k.n < 1000)
        k.n = 1000;
    auto run = [&](Stream s, AdvPlan const&, int n) {
        Attempt r;
        EngineHolder h(s, AdvPlan{});
        stats::UBins ub;
        std::vector<double> lowbits(16, 0.0);
        for (int i = 0; i < n && !r.hard; ++i)
        {
            double u = generate_canonical<double>(h.e.base);
            if (!(u >= 0 && u < 1))
                r.fail("generate_canonical<double>(xorwow) = " + num(u)
                       + " outside [0,1)");
            double scaled = u * 9007199254740992.0;
            if (scaled != std::floor(scaled))
                r.fail("canonical value is not a multiple of 2^-53");
            lowbits[size_t(uint64_t(scaled) & 15u)] += 1;
            ub.add(u);
        }
        if (!r.hard)
        {
            r.gof("canonical", ub.test());
            std::vector<ld> p(16, 1.0L / 16);
            r.gof("canonical low 4 bits", stats::test_discrete(p, lowbits));
        }
        return r;
    };
    Verdict v = decide(log, k, false, run);
    return v;
}

}  // namespace

void setup()
{
    c15::init_engine_pool();
}

Verdict run_case(Choices& c, CaseLog& log)
{
    // weights: Poisson / gamma / normal / selector get extra share
    size_t kind = c.pick({2, 2, 3, 4, 5, 2, 2, 1, 2, 2, 2, 2, 4, 1});
    log.mix(int(kind));
    switch (kind)
    {
        case 0: return k_uniform(c, log);
        case 1: return k_exponential(c, log);
        case 2: return k_normal(c, log);
        case 3: return k_gamma(c, log);
        case 4: return k_poisson(c, log);
        case 5: return k_reciprocal(c, log);
        case 6: return k_invsq(c, log);
        case 7: return k_radial(c, log);
        case 8: return k_isotropic(c, log);
        case 9: return k_box(c, log);
        case 10: return k_bernoulli(c, log);
        case 11: return k_rejection(c, log);
        case 12: return k_selector(c, log);
        default: return k_canonical(c, log);
    }
}

bool run_exhaustive(ExhaustiveResult&)
{
    return false;
}

}  // namespace verif
