// C15 (part 2) — Tsai-Urban angular distribution and the energy-loss
// fluctuation models (EnergyLossHelper + Delta / Gamma / Gaussian / Urban
// distributions): support, bounded draw counts, documented law where there is
// one (Tsai-Urban, gamma, truncated Gaussian) and mean-loss preservation
// within statistical resolution (all models).
//
// Params are built per case from public Input structs (one generated
// material, one generated electron cutoff); particles are fixed at setup.
#include <algorithm>
#include <cmath>
#include <cstdio>
#include <memory>
#include <string>
#include <vector>

#define VERIF_STATS_WITH_ENGINE 1
#include "caselog.hh"
#include "stats.hh"

#include "corecel/data/CollectionStateStore.hh"
#include "corecel/io/Logger.hh"
#include "corecel/sys/Environment.hh"
#include "celeritas/Constants.hh"
#include "celeritas/Quantities.hh"
#include "celeritas/Units.hh"
#include "celeritas/em/data/FluctuationData.hh"
#include "celeritas/em/distribution/EnergyLossDeltaDistribution.hh"
#include "celeritas/em/distribution/EnergyLossGammaDistribution.hh"
#include "celeritas/em/distribution/EnergyLossGaussianDistribution.hh"
#include "celeritas/em/distribution/EnergyLossHelper.hh"
#include "celeritas/em/distribution/EnergyLossUrbanDistribution.hh"
#include "celeritas/em/distribution/TsaiUrbanDistribution.hh"
#include "celeritas/em/params/FluctuationParams.hh"
#include "celeritas/mat/MaterialParams.hh"
#include "celeritas/mat/MaterialTrackView.hh"
#include "celeritas/phys/CutoffParams.hh"
#include "celeritas/phys/CutoffView.hh"
#include "celeritas/phys/PDGNumber.hh"
#include "celeritas/phys/ParticleParams.hh"
#include "celeritas/phys/ParticleTrackView.hh"

namespace verif
{
char const* const kPropertyId = "C15";
char const* const kHarness = "c15_eloss";
size_t const kMaxBytes = 64;
char const* const kRule
    = "byte string -> kind {Tsai-Urban(E, m) | EnergyLossHelper on generated "
      "(Z 1..98, number density, electron cutoff, particle of 6, kinetic "
      "energy, mean loss < E, step) with three strategies aimed at the "
      "none/gamma/gaussian/urban branches | directly constructed gamma / "
      "gaussian loss distributions}, xorwow seed, fit mode N in [1e3,1e4] or "
      "adversarial mode (forced canonical 0, 2^-53, 1-2^-53); oracle = "
      "support (finite, >= 0, cos in [-1,1], gaussian in (0,2m]), draw caps, "
      "helper accessors and model choice vs long-double formulas of the "
      "class documentation, DKW-KS/chi2 against the documented law, exact "
      "gamma sum test, sub-Gaussian / Bernstein bound on |mean - mean_loss| "
      "(alpha 1e-9, failure must repeat on a fresh stream); non-trivial = "
      "fit case with N >= 1000 and a sampled (non-delta) model, or an "
      "adversarial case in which a forced draw was consumed";

namespace
{
using namespace celeritas;
using namespace verif::c15;
using stats::ld;
using units::MevEnergy;
using units::MevMass;
using EnergySq = Quantity<UnitProduct<units::Mev, units::Mev>>;
using Model = EnergyLossFluctuationModel;

char const* const kFLogZero = "F15a-log-of-zero-canonical";

constexpr double kAlpha = 1e-9;
constexpr double kAlphaChi2 = 1e-12;
constexpr double kEps = 2.220446049250313e-16;

struct ParticleDef
{
    char const* name;
    PDGNumber pdg;
    double mass;
    double charge;
};
ParticleDef const kParticles[] = {
    {"electron", pdg::electron(), 0.5109989461, -1},
    {"positron", pdg::positron(), 0.5109989461, 1},
    {"mu_minus", pdg::mu_minus(), 105.6583745, -1},
    {"pi_plus", pdg::pi_plus(), 139.57039, 1},
    {"proton", pdg::proton(), 938.27208816, 1},
    {"alpha", pdg::alpha(), 3727.3794066, 2},
};
constexpr int kNumParticles = 6;
constexpr double kElectronMass = 0.5109989461;

std::shared_ptr<ParticleParams> g_particles;
using ParticleStateStore
    = CollectionStateStore<ParticleStateData, MemSpace::host>;
using MaterialStateStore
    = CollectionStateStore<MaterialStateData, MemSpace::host>;
std::unique_ptr<ParticleStateStore> g_pstate;

struct Attempt
{
    bool hard = false;
    std::string msg, key;
    bool stat = false;
    std::string stat_msg;
    long adv_used = 0;

    void fail(std::string m, char const* k = nullptr)
    {
        if (hard)
            return;
        hard = true;
        msg = std::move(m);
        if (k)
            key = k;
    }
    void stat_fail(std::string m)
    {
        if (!stat)
            stat_msg = std::move(m);
        stat = true;
    }
    void gof(char const* what, stats::GofResult const& g)
    {
        if (g.reject(kAlpha, kAlphaChi2))
            this->stat_fail(std::string(what) + ": " + g.str());
    }
    void pval(char const* what, ld p)
    {
        if (p < kAlpha)
        {
            char b[160];
            std::snprintf(
                b, sizeof b, "%s: exact two-sided p=%.3Lg", what, p);
            this->stat_fail(b);
        }
    }
};

std::string num(double v)
{
    char b[40];
    std::snprintf(b, sizeof b, "%.17g", v);
    return b;
}

struct Common
{
    bool adversarial = false;
    int n = 0;
    Stream s;
    AdvPlan adv;
};

Common decode_common(Choices& c, CaseLog& log, int dps, int nmax)
{
    Common k;
    k.adversarial = c.boolean(0.2);
    k.s.seed = uint32_t(c.bits(4));
    k.s.subseq = unsigned(c.int_in(0, 255));
    if (!k.adversarial)
    {
        k.n = int(c.log_uniform(1000, nmax));
        log.label("mode:fit");
    }
    else
    {
        k.n = int(c.int_in(8, 200));
        log.label("mode:adversarial");
        int na = int(c.int_in(1, 4));
        bool pair = c.boolean(0.5);
        static double const vals[] = {0.0,
                                      1.1102230246251565e-16,
                                      1 - 1.1102230246251565e-16,
                                      0.75,
                                      0.25,
                                      0.5,
                                      2.220446049250313e-16,
                                      1 - 2.220446049250313e-16};
        long range = long(k.n) * dps;
        for (int i = 0; i < na; ++i)
        {
            long at = long(c.int_in(0, range - 1));
            k.adv.add(at, vals[c.int_in(0, 7)]);
            if (pair)
                k.adv.add(at + 1, vals[c.int_in(0, 7)]);
        }
        k.adv.finish();
        for (int i = 0; i < k.adv.n; ++i)
        {
            log.mix(k.adv.at[i]);
            log.mix(k.adv.val[i]);
        }
        if (log.want_desc)
        {
            std::string s = "[";
            for (int i = 0; i < k.adv.n; ++i)
                s += (i ? ", " : "") + std::to_string(k.adv.at[i]) + ":"
                     + num(k.adv.val[i]);
            log.ds("forced_draws", s + "]");
        }
    }
    log.mix(k.n);
    log.mix(k.s.seed);
    log.mix(k.s.subseq);
    log.d("n", k.n);
    log.d("seed", k.s.seed);
    log.d("subseq", k.s.subseq);
    return k;
}

template<class Run>
Verdict decide(CaseLog& log, Common const& k, bool sampled, Run&& run)
{
    Attempt a = run(k.s, k.adv, k.n);
    if (a.hard)
        return log.fail(a.msg, a.key);
    if (a.stat)
    {
        log.count("stat_first_fail");
        Stream s2 = k.s;
        s2.subseq += 1000;
        AdvPlan none;
        Attempt b = run(s2, none, k.n);
        if (b.hard)
            return log.fail(b.msg, b.key);
        if (b.stat)
            return log.fail("statistical test failed on two independent "
                            "streams: "
                            + a.stat_msg + " || retest: " + b.stat_msg);
        log.count("stat_retest_cleared");
    }
    if (k.adversarial)
    {
        log.count("forced_draws_consumed", a.adv_used);
        log.nontrivial = a.adv_used > 0;
    }
    else
        log.nontrivial = k.n >= 1000 && sampled;
    return Verdict::pass;
}

//---------------------------------------------------------------------------//
// Tsai-Urban: u = a * Gamma(2,1), a = 1.6 w.p. 1/4 else 1.6/3, truncated to
// u <= umax = 2 (1 + E/m); cos(theta) = 1 - 2 (u/umax)^2
// (Geant4 ModifiedTsai, PRM 6.5.2 / 10.2.1)
ld tsai_cdf_u(ld u)
{
    auto G = [](ld x) { return 1 - (1 + x) * expl(-x); };
    return 0.25L * G(u / 1.6L) + 0.75L * G(u * 3 / 1.6L);
}

Verdict k_tsai(Choices& c, CaseLog& log)
{
    log.label("tsai-urban");
    int pid = int(c.int_in(0, 1)) ? 2 : 0;  // electron or muon mass
    double mass = kParticles[pid].mass;
    double energy;
    switch (c.pick({1, 4, 2}))
    {
        case 0:
            energy = 0;
            log.label("tsai:E=0");
            break;
        case 1:
            energy = c.log_uniform(1e-4, 1e4) * mass;
            log.label("tsai:fit-range");
            break;
        default:
            energy = c.log_uniform(1e4, 1e8) * mass;
            log.label("tsai:ultra-relativistic");
            break;
    }
    log.mix(mass);
    log.mix(energy);
    log.ds("kind", "tsai-urban");
    log.d("energy", num(energy));
    log.d("mass", num(mass));
    Common k = decode_common(c, log, 4, 10000);
    ld const umax = 2 * (1 + ld(energy) / mass);
    // 1 - cos has a resolution of 2^-53: u can only be recovered from cos
    // when (u/umax)^2 >> 1e-16
    bool fit = umax <= 1e5L;
    ld const norm = tsai_cdf_u(umax);
    auto run = [&](Stream s, AdvPlan const& adv, int n) {
        Attempt r;
        EngineHolder h(s, adv);
        TsaiUrbanDistribution d{MevEnergy{energy}, MevMass{mass}};
        stats::UBins ub;
        long maxdraw = 0;
        for (int i = 0; i < n && !r.hard; ++i)
        {
            long c0 = h.e.canon;
            double mu = d(h.e);
            long used = h.e.canon - c0;
            maxdraw = std::max(maxdraw, used);
            if (used % 3 != 0)
                r.fail("Tsai-Urban used " + std::to_string(used)
                       + " draws (3 per trial expected)");
            if (!(mu >= -1 && mu <= 1))
                r.fail("Tsai-Urban cos(theta) = " + num(mu)
                       + " outside [-1,1]");
            ld u = umax * sqrtl((1 - ld(mu)) / 2);
            ub.add(tsai_cdf_u(u) / norm);
        }
        // acceptance >= 0.75 (umax >= 2): 200 trials ~ 1e-120
        if (maxdraw > 600)
            r.stat_fail("Tsai-Urban needed " + std::to_string(maxdraw)
                        + " draws for one sample");
        if (!k.adversarial && fit && !r.hard)
            r.gof("tsai-urban", ub.test());
        r.adv_used = h.e.next;
        return r;
    };
    return decide(log, k, fit, run);
}

//---------------------------------------------------------------------------//
// Reference Urban model (PRM 7.3.2, GEANT3 PHYS332 2.4) used only for the
// *tolerance* of the mean test: per-sample variance (upper bound) and the
// largest single-collision energy.  The judged quantity is the documented
// contract "mean loss is preserved".
struct UrbanRef
{
    ld var = 0;  // variance bound of one sample
    ld jump = 0;  // largest Poisson-sampled single loss
    ld xs_exc[2] = {0, 0};
    ld xs_ion = 0;
};

UrbanRef urban_reference(UrbanFluctuationParameters const& p,
                         ld mean_exc_energy,
                         ld unscaled_mean,
                         ld emax,
                         ld two_mebsgs,
                         ld beta_sq)
{
    UrbanRef u;
    ld const rate = 0.56L, e0 = 1e-5L;
    ld s = 1 + 0.5L * std::min<ld>(1e-3L / emax, 1);
    ld m = unscaled_mean / s;
    ld E[2] = {p.binding_energy[0], p.binding_energy[1]};
    ld f[2] = {p.oscillator_strength[0], p.oscillator_strength[1]};
    ld xs[2] = {0, 0};
    if (emax > mean_exc_energy)
    {
        ld w = logl(two_mebsgs) - beta_sq;
        ld w0 = logl(mean_exc_energy);
        if (w > w0)
        {
            if (w > logl(E[1]))
            {
                ld cc = m * (1 - rate) / (w - w0);
                for (int i = 0; i < 2; ++i)
                    xs[i] = cc * f[i] * (w - logl(E[i])) / E[i];
            }
            else
                xs[0] = m * (1 - rate) / E[0];
            ld scaling = 4;
            if (xs[0] < 42)
                scaling = 0.5L + 3.5L * sqrtl(xs[0] / 42);
            E[0] *= scaling;
            xs[0] /= scaling;
        }
    }
    ld R = emax / e0;
    ld xs_ion = m * (emax - e0) / (emax * e0 * logl(R));
    if (xs[0] + xs[1] > 0)
        xs_ion *= rate;
    u.xs_exc[0] = xs[0];
    u.xs_exc[1] = xs[1];
    u.xs_ion = xs_ion;

    ld var = 0, jump = 0, gmean = 0, gvar = 0;
    for (int i = 0; i < 2; ++i)
    {
        if (xs[i] > 8)
        {
            gmean += xs[i] * E[i];
            gvar += xs[i] * E[i] * E[i];
        }
        else if (xs[i] > 0)
        {
            // E_i * (n + U(-1,1) [n>0]): Poisson jumps E_i + bounded noise
            var += E[i] * E[i] * (xs[i] + 1);
            jump = std::max(jump, E[i]);
        }
    }
    if (gvar > 0)
        var += sqrtl(gvar) <= 4 * gmean ? gvar : gmean * gmean / 3;
    ld alpha = 1, mnc = 0;
    if (xs_ion > 8)
    {
        alpha = (xs_ion + 8) * R / (8 * R + xs_ion);
        ld mlc = alpha * logl(alpha) / (alpha - 1);
        mnc = xs_ion * R * (alpha - 1) / ((R - 1) * alpha);
        ld gm = mnc * mlc * e0;
        ld gs2 = e0 * e0 * xs_ion * (alpha - mlc * mlc);
        var += sqrtl(gs2) <= 4 * gm ? gs2 : gm * gm / 3;
    }
    if (xs_ion > 0 && R > alpha)
    {
        // jumps alpha e0 / u, u ~ U(alpha/R, 1): E[J^2] = alpha e0 Emax
        var += (xs_ion - mnc) * alpha * e0 * emax;
        jump = std::max(jump, emax);
    }
    u.var = s * s * var;
    u.jump = s * jump;
    return u;
}

struct HelperInput
{
    int z;
    double amass;
    double number_density;
    double cutoff;
    int pid;
    double energy;
    double mean_loss;
    double step;
};

Verdict k_helper(Choices& c, CaseLog& log)
{
    log.label("helper");
    HelperInput in;
    int strategy = int(c.pick({3, 4, 2}));
    static char const* sl[]
        = {"strategy:free", "strategy:thick-heavy", "strategy:thin"};
    log.label(sl[strategy]);
    in.z = int(c.int_in(1, 98));
    in.amass = in.z == 1 ? 1.008 : 2.0 * in.z + 0.006 * in.z * in.z;
    in.number_density = c.log_uniform(1e18, 2e23);  // atoms / cm^3
    if (strategy == 0)
    {
        in.pid = int(c.int_in(0, kNumParticles - 1));
        in.energy = c.log_uniform(1e-3, 1e6);
        in.cutoff = c.log_uniform(1e-4, 1e3);
        in.mean_loss = in.energy * c.log_uniform(1e-7, 0.99);
        in.step = c.log_uniform(1e-7, 1e2);
    }
    else if (strategy == 1)
    {
        // heavy particle, cutoff above Tmax/2, mean loss >= 10 Tmax:
        // gaussian or gamma depending on the step (Bohr variance)
        in.pid = int(c.int_in(2, kNumParticles - 1));
        double M = kParticles[in.pid].mass;
        in.energy = M * c.log_uniform(1e-5, 3e-1);
        double g = 1 + in.energy / M, bs = 1 - 1 / (g * g);
        double mr = kElectronMass / M;
        double tmax = 2 * kElectronMass * bs * g * g / (1 + mr * (2 * g + mr));
        in.cutoff = tmax * c.log_uniform(0.3, 1e2);
        double emax = std::min(in.cutoff, tmax);
        in.mean_loss = std::min(0.9 * in.energy,
                                emax * c.log_uniform(5, 1e3));
        // Bohr variance ~ mean^2 / 4 at the gaussian/gamma border
        double ne = in.number_density * in.z;
        double q = kParticles[in.pid].charge;
        double bohr_per_len = 2 * constants::pi * constants::r_electron
                              * constants::r_electron * kElectronMass * ne * q
                              * q * emax * (1 / bs - 0.5);
        double border = in.mean_loss * in.mean_loss / (4 * bohr_per_len);
        in.step = border * c.log_uniform(1e-3, 1e3);
        if (!(in.step > 1e-12))
            in.step = 1e-12;
        if (!(in.step < 1e6))
            in.step = 1e6;
    }
    else
    {
        // thin layers: electrons/positrons/any, small losses
        in.pid = int(c.int_in(0, kNumParticles - 1));
        in.energy = c.log_uniform(1e-2, 1e4);
        in.cutoff = c.log_uniform(1e-4, 10);
        in.mean_loss = std::min(0.9 * in.energy, c.log_uniform(1e-6, 1e-1));
        in.step = c.log_uniform(1e-6, 1);
    }
    log.mix(in.z);
    log.mix(in.number_density);
    log.mix(in.cutoff);
    log.mix(in.pid);
    log.mix(in.energy);
    log.mix(in.mean_loss);
    log.mix(in.step);
    log.ds("kind", "helper");
    log.d("Z", in.z);
    log.d("number_density", num(in.number_density));
    log.d("cutoff", num(in.cutoff));
    log.ds("particle", kParticles[in.pid].name);
    log.d("energy", num(in.energy));
    log.d("mean_loss", num(in.mean_loss));
    log.d("step", num(in.step));
    Common k = decode_common(c, log, 20, 8000);

    // ---- build params from public inputs
    MaterialParams::Input mi;
    mi.elements
        = {{AtomicNumber{in.z}, units::AmuMass{in.amass}, {}, Label{"el"}}};
    mi.materials = {{in.number_density,
                     293.0,
                     MatterState::solid,
                     {{ElementId{0}, 1.0}},
                     Label{"mat"}}};
    auto materials = std::make_shared<MaterialParams>(mi);
    CutoffParams::Input ci;
    ci.particles = g_particles;
    ci.materials = materials;
    ci.cutoffs = {{pdg::electron(), {{MevEnergy{in.cutoff}, 0}}}};
    auto cutoffs = std::make_shared<CutoffParams>(ci);
    auto fluct = std::make_shared<FluctuationParams>(*g_particles, *materials);
    MaterialStateStore mstate(materials->host_ref(), 1);

    ParticleTrackView particle(
        g_particles->host_ref(), g_pstate->ref(), TrackSlotId{0});
    particle = {ParticleId{ParticleId::size_type(in.pid)},
                MevEnergy{in.energy}};
    MaterialTrackView material(
        materials->host_ref(), mstate.ref(), TrackSlotId{0});
    material = {MaterialId{0}};
    CutoffView cutoff(cutoffs->host_ref(), MaterialId{0});
    auto const& fref = fluct->host_ref();
    EnergyLossHelper helper(fref,
                            cutoff,
                            material,
                            particle,
                            MevEnergy{in.mean_loss},
                            in.step);

    // ---- reference (class documentation + PRM 7.3) in long double
    ld const M = kParticles[in.pid].mass, me = kElectronMass;
    ld const gam = 1 + ld(in.energy) / M;
    ld const bsq = (ld(in.energy) * (ld(in.energy) + 2 * M))
                   / ((ld(in.energy) + M) * (ld(in.energy) + M));
    ld const tmb = 2 * me * bsq * gam * gam;
    ld tmax, mratio = 1;
    if (in.pid == 0)
        tmax = 0.5L * in.energy;
    else
    {
        mratio = me / M;
        tmax = tmb / (1 + mratio * (2 * gam + mratio));
    }
    ld const emax = std::min<ld>(in.cutoff, tmax);
    ld const ne = ld(in.number_density) * in.z;
    ld const q = kParticles[in.pid].charge;
    ld const bohr = 2 * M_PIl * ld(constants::r_electron)
                    * ld(constants::r_electron) * me * ne * q * q * emax
                    * in.step * (1 / bsq - 0.5L);
    // cancellation in 1 - (M/(E+M))^2 as evaluated in double
    double const acc_tol = 1e-12 + 16 * kEps * double(M / in.energy);
    auto close = [&](ld a, ld b) {
        return fabsl(a - b) <= acc_tol * fabsl(b);
    };
    auto marginal = [&](ld a, ld b) {
        return fabsl(a - b) <= 4 * acc_tol * std::max(fabsl(a), fabsl(b));
    };
    Model ref_model;
    bool ambiguous = false;
    if (in.mean_loss < 1e-5)
        ref_model = Model::none;
    else if (emax <= 1e-5L)
    {
        ref_model = Model::none;
        ambiguous = marginal(emax, 1e-5L);
    }
    else
    {
        ambiguous = marginal(in.mean_loss, 10 * emax)
                    || marginal(tmax, 2 * emax)
                    || marginal(ld(in.mean_loss) * in.mean_loss, 4 * bohr);
        if (mratio >= 1 || in.mean_loss < 10 * emax || tmax > 2 * emax)
            ref_model = Model::urban;
        else if (ld(in.mean_loss) * in.mean_loss >= 4 * bohr)
            ref_model = Model::gaussian;
        else
            ref_model = Model::gamma;
    }
    Model const model = helper.model();
    static char const* ml[]
        = {"model:none", "model:gamma", "model:gaussian", "model:urban"};
    log.label(ml[int(model)]);
    log.ds("model", ml[int(model)] + 6);
    if (ambiguous)
        log.label("model-boundary-within-rounding");
    else if (model != ref_model)
        return log.fail(std::string("EnergyLossHelper chose ")
                        + ml[int(model)] + " but the documented rule gives "
                        + ml[int(ref_model)]);
    if (helper.mean_loss().value() != in.mean_loss)
        return log.fail("helper.mean_loss() differs from the input");
    if (model != Model::none)
    {
        if (!close(helper.max_energy().value(), emax))
            return log.fail("helper.max_energy() = "
                            + num(helper.max_energy().value())
                            + " differs from min(cutoff, Tmax) = "
                            + num(double(emax)));
        if (!close(helper.beta_sq(), bsq))
            return log.fail("helper.beta_sq() differs from reference");
        if (!close(helper.two_mebsgs().value(), tmb))
            return log.fail("helper.two_mebsgs() differs from reference");
        if (!close(helper.bohr_variance().value(), bohr))
            return log.fail("helper.bohr_variance() = "
                            + num(helper.bohr_variance().value())
                            + " differs from Bohr's formula "
                            + num(double(bohr)));
    }

    ld const mean = in.mean_loss;
    if (model == Model::none)
    {
        EngineHolder h(k.s, k.adv);
        EnergyLossDeltaDistribution d(helper);
        for (int i = 0; i < 8; ++i)
        {
            if (d(h.e).value() != in.mean_loss)
                return log.fail("delta distribution changed the mean loss");
        }
        if (h.e.canon != 0)
            return log.fail("delta distribution consumed random numbers");
        log.nontrivial = false;
        return Verdict::trivial;
    }

    if (model == Model::gamma)
    {
        ld const kk = mean * mean / bohr, theta = bohr / mean;
        ld const tcens = 1e-290L;
        double umin_raw = double(stats::gamma_p(kk, tcens / theta));
        double umin = umin_raw < 1e-12 ? 0 : umin_raw;
        auto run = [&](Stream s, AdvPlan const& adv, int n) {
            Attempt r;
            EngineHolder h(s, adv);
            EnergyLossGammaDistribution d(helper);
            stats::UBins ub;
            ld sum = 0;
            long maxdraw = 0;
            for (int i = 0; i < n && !r.hard; ++i)
            {
                long c0 = h.e.canon;
                double x = d(h.e).value();
                maxdraw = std::max(maxdraw, h.e.canon - c0);
                if (!(x >= 0) || !std::isfinite(x))
                {
                    r.fail("gamma energy loss " + num(x)
                               + " not finite / negative",
                           h.e.any_forced_zero ? kFLogZero : nullptr);
                    break;
                }
                ld y = ld(x) / theta;
                ub.add(stats::gamma_p(kk, std::max(y, tcens / theta)));
                sum += y;
            }
            if (maxdraw > 200)
                r.stat_fail("gamma loss used " + std::to_string(maxdraw)
                            + " draws for one sample");
            if (!k.adversarial && !r.hard)
            {
                r.gof("gamma energy loss vs Gamma(m^2/var, var/m)",
                      ub.test(umin));
                r.pval("gamma energy loss: sum vs Gamma(n k) (mean "
                       "preservation)",
                       stats::gamma_two_sided(ld(n) * kk, sum, tcens / theta));
            }
            r.adv_used = h.e.next;
            return r;
        };
        return decide(log, k, true, run);
    }

    if (model == Model::gaussian)
    {
        ld const sd = sqrtl(bohr);
        ld const plo = stats::norm_cdf(-mean / sd);
        ld const phi = stats::norm_cdf(mean / sd);
        auto run = [&](Stream s, AdvPlan const& adv, int n) {
            Attempt r;
            EngineHolder h(s, adv);
            EnergyLossGaussianDistribution d(helper);
            stats::UBins ub;
            ld sum = 0;
            long maxdraw = 0;
            for (int i = 0; i < n && !r.hard; ++i)
            {
                long c0 = h.e.canon;
                double x = d(h.e).value();
                maxdraw = std::max(maxdraw, h.e.canon - c0);
                if (!(x > 0 && x <= 2 * in.mean_loss))
                {
                    r.fail("gaussian energy loss " + num(x)
                               + " outside (0, 2 mean]",
                           (std::isnan(x) && h.e.any_forced_zero) ? kFLogZero
                                                                  : nullptr);
                    break;
                }
                ub.add((stats::norm_cdf((x - mean) / sd) - plo) / (phi - plo));
                sum += x - mean;
            }
            // acceptance >= 95% here (mean >= 2 sd)
            if (maxdraw > 200)
                r.stat_fail("gaussian loss used " + std::to_string(maxdraw)
                            + " draws for one sample");
            if (!k.adversarial && !r.hard)
            {
                r.gof("gaussian energy loss vs truncated normal", ub.test());
                // symmetric truncation: mean preserved, sub-Gaussian(sd)
                ld t = fabsl(sum / n);
                ld bound = 2 * expl(-ld(n) * t * t / (2 * sd * sd));
                if (bound < kAlpha)
                    r.stat_fail("gaussian energy loss: mean differs from "
                                "mean_loss by "
                                + num(double(t)) + " (bound "
                                + num(double(bound)) + ")");
            }
            r.adv_used = h.e.next;
            return r;
        };
        return decide(log, k, true, run);
    }

    // ---- Urban
    UrbanRef uref = urban_reference(
        fref.urban[MaterialId{0}],
        ld(material.make_material_view().mean_excitation_energy().value()),
        mean,
        emax,
        tmb,
        bsq);
    if (uref.xs_ion > 8)
        log.label("urban:ion-fast");
    if (uref.xs_exc[0] > 8 || uref.xs_exc[1] > 8)
        log.label("urban:exc-gauss");
    else if (uref.xs_exc[0] > 0)
        log.label("urban:exc-poisson");
    else
        log.label("urban:no-excitation");
    // expected draws per sample ~ 2 (xs_ion<=8) + ...; cap generously
    double expect_coll = double(std::min<ld>(uref.xs_ion, 8)
                                + std::min<ld>(uref.xs_exc[0], 8)
                                + std::min<ld>(uref.xs_exc[1], 8));
    bool sensitive = true;
    auto run = [&](Stream s, AdvPlan const& adv, int n) {
        Attempt r;
        EngineHolder h(s, adv);
        EnergyLossUrbanDistribution d(helper);
        ld sum = 0, sumsq = 0;
        long maxdraw = 0;
        for (int i = 0; i < n && !r.hard; ++i)
        {
            long c0 = h.e.canon;
            double x = d(h.e).value();
            maxdraw = std::max(maxdraw, h.e.canon - c0);
            if (!(x >= 0) || !std::isfinite(x))
            {
                r.fail("urban energy loss " + num(x)
                           + " not finite / negative",
                       (h.e.any_forced_zero) ? kFLogZero : nullptr);
                break;
            }
            sum += x;
            sumsq += ld(x) * x;
        }
        // every collision costs <= 2 draws + Knuth's k+1; Gaussian parts
        // accept with p >= 0.19
        if (maxdraw > 100 * (3 * expect_coll + 20))
            r.stat_fail("urban loss used " + std::to_string(maxdraw)
                        + " draws for one sample");
        if (!k.adversarial && !r.hard)
        {
            ld obs = sum / n;
            double hw = stats::bernstein_halfwidth(
                double(uref.var), double(uref.jump), n, kAlpha);
            hw += 1e-12 * double(mean);
            double svar = double(sumsq / n - obs * obs);
            if (double(uref.var) > 0)
            {
                double ratio = svar / double(uref.var);
                if (ratio > 0.5)
                    log.count("urban_var_ratio>0.5");
                else if (ratio > 0.1)
                    log.count("urban_var_ratio_0.1-0.5");
                else
                    log.count("urban_var_ratio<0.1");
            }
            double rel_hw = hw / double(mean);
            log.count(rel_hw < 0.01   ? "urban_mean_resolution<1%"
                      : rel_hw < 0.05 ? "urban_mean_resolution_1-5%"
                      : rel_hw < 0.25 ? "urban_mean_resolution_5-25%"
                                      : "urban_mean_resolution>25%(weak)");
            sensitive = rel_hw < 0.25;
            if (fabsl(obs - mean) > hw)
                r.stat_fail("urban energy loss: sample mean " + num(double(obs))
                            + " vs mean_loss " + num(double(mean))
                            + " exceeds the Bernstein half-width " + num(hw)
                            + " (model variance " + num(double(uref.var))
                            + ", sample variance " + num(svar) + ")");
        }
        r.adv_used = h.e.next;
        return r;
    };
    Verdict v = decide(log, k, true, run);
    if (v == Verdict::pass && !k.adversarial && !sensitive)
    {
        // support and draw caps were checked, but the mean test cannot
        // resolve 25% with this N (1/E^2 tail up to Emax >> mean)
        log.label("urban:mean-test-weak");
        log.nontrivial = false;
    }
    return v;
}

//---------------------------------------------------------------------------//
// Directly constructed gamma / gaussian loss distributions ("allowable to
// construct the sampler explicitly outside the helper's range")
Verdict k_direct(Choices& c, CaseLog& log)
{
    bool gauss = c.boolean(0.5);
    log.label(gauss ? "direct:gaussian" : "direct:gamma");
    double mean = c.log_uniform(1e-6, 1e3);
    double rel = gauss ? c.log_uniform(1e-3, 4.0)  // Urban uses sd <= 4 mean
                       : c.log_uniform(3e-2, 30);
    double sd = mean * rel;
    log.mix(int(gauss));
    log.mix(mean);
    log.mix(sd);
    log.ds("kind", gauss ? "direct-gaussian" : "direct-gamma");
    log.d("mean", num(mean));
    log.d("stddev", num(sd));
    Common k = decode_common(c, log, 4, 10000);
    if (gauss)
    {
        ld const plo = stats::norm_cdf(-ld(mean) / sd);
        ld const phi = stats::norm_cdf(ld(mean) / sd);
        auto run = [&](Stream s, AdvPlan const& adv, int n) {
            Attempt r;
            EngineHolder h(s, adv);
            EnergyLossGaussianDistribution d(MevEnergy{mean}, MevEnergy{sd});
            stats::UBins ub;
            ld sum = 0;
            long maxdraw = 0;
            for (int i = 0; i < n && !r.hard; ++i)
            {
                long c0 = h.e.canon;
                double x = d(h.e).value();
                maxdraw = std::max(maxdraw, h.e.canon - c0);
                if (!(x > 0 && x <= 2 * mean))
                {
                    r.fail("gaussian energy loss " + num(x)
                               + " outside (0, 2 mean]",
                           (std::isnan(x) && h.e.any_forced_zero) ? kFLogZero
                                                                  : nullptr);
                    break;
                }
                ub.add((stats::norm_cdf((ld(x) - mean) / sd) - plo)
                       / (phi - plo));
                sum += ld(x) - mean;
            }
            // acceptance >= P(|z| < 1/4) = 0.197: 2000 draws ~ 1e-95
            if (maxdraw > 2000)
                r.stat_fail("gaussian loss used " + std::to_string(maxdraw)
                            + " draws for one sample");
            if (!k.adversarial && !r.hard)
            {
                r.gof("gaussian energy loss vs truncated normal", ub.test());
                ld t = fabsl(sum / n);
                ld v = std::min<ld>(ld(sd) * sd, ld(mean) * mean);
                ld bound = 2 * expl(-ld(n) * t * t / (2 * v));
                if (bound < kAlpha)
                    r.stat_fail("gaussian energy loss: mean shifted by "
                                + num(double(t)));
            }
            r.adv_used = h.e.next;
            return r;
        };
        return decide(log, k, true, run);
    }
    ld const var = ld(sd) * sd;
    ld const kk = ld(mean) * mean / var, theta = var / mean;
    ld const tcens = 1e-290L;
    double umin_raw = double(stats::gamma_p(kk, tcens / theta));
    double umin = umin_raw < 1e-12 ? 0 : umin_raw;
    auto run = [&](Stream s, AdvPlan const& adv, int n) {
        Attempt r;
        EngineHolder h(s, adv);
        EnergyLossGammaDistribution d(MevEnergy{mean},
                                      EnergySq{double(sd) * sd});
        stats::UBins ub;
        ld sum = 0;
        for (int i = 0; i < n && !r.hard; ++i)
        {
            double x = d(h.e).value();
            if (!(x >= 0) || !std::isfinite(x))
            {
                r.fail("gamma energy loss " + num(x) + " not finite/negative",
                       h.e.any_forced_zero ? kFLogZero : nullptr);
                break;
            }
            ld y = ld(x) / theta;
            ub.add(stats::gamma_p(kk, std::max(y, tcens / theta)));
            sum += y;
        }
        if (!k.adversarial && !r.hard)
        {
            r.gof("gamma energy loss vs Gamma(m^2/var, var/m)", ub.test(umin));
            r.pval("gamma energy loss: sum vs Gamma(n k)",
                   stats::gamma_two_sided(ld(n) * kk, sum, tcens / theta));
        }
        r.adv_used = h.e.next;
        return r;
    };
    return decide(log, k, true, run);
}

}  // namespace

void setup()
{
    c15::init_engine_pool();
    ParticleParams::Input pi;
    for (auto const& p : kParticles)
        pi.push_back({p.name,
                      p.pdg,
                      MevMass{p.mass},
                      units::ElementaryCharge{p.charge},
                      constants::stable_decay_constant});
    g_particles = std::make_shared<ParticleParams>(std::move(pi));
    g_pstate
        = std::make_unique<ParticleStateStore>(g_particles->host_ref(), 1);
}

Verdict run_case(Choices& c, CaseLog& log)
{
    size_t kind = c.pick({2, 7, 2});
    log.mix(int(kind));
    try
    {
        switch (kind)
        {
            case 0: return k_tsai(c, log);
            case 1: return k_helper(c, log);
            default: return k_direct(c, log);
        }
    }
    catch (celeritas::RuntimeError const& e)
    {
        log.label("rejected-by-validate");
        return Verdict::rejected;
    }
}

bool run_exhaustive(ExhaustiveResult&)
{
    return false;
}

}  // namespace verif
