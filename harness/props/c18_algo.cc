// C18 — device-portable algorithms, ranges, indexers and math helpers agree
// with std:: / exact-arithmetic references.  (Grids: c18_grid.cc.)
#include <algorithm>
#include <cmath>
#include <functional>
#include <numeric>
#include <vector>

#include "caselog.hh"
#include "corecel/cont/Array.hh"
#include "corecel/cont/Range.hh"
#include "corecel/cont/Span.hh"
#include "corecel/data/HyperslabIndexer.hh"
#include "corecel/math/Algorithms.hh"
#include "orange/univ/detail/RaggedRightIndexer.hh"

namespace verif
{
char const* const kPropertyId = "C18";
char const* const kHarness = "c18_algo";
size_t const kMaxBytes = 192;
char const* const kRule
    = "byte string -> (kind, sequence with many duplicates / ranges / "
      "extents / integer and real arguments); oracle = std:: algorithms and "
      "exact integer / long-double arithmetic; non-trivial = sequence of "
      "length >= 3 containing a duplicate, or a non-degenerate argument set "
      "(non-empty range, non-zero operands)";
void setup() {}

namespace
{
using celeritas::size_type;

template<class T>
bool is_perm(std::vector<T> a, std::vector<T> b)
{
    auto lt = [](T const& x, T const& y) {
        // total order incl. signed zero
        if (x < y)
            return true;
        if (y < x)
            return false;
        return std::signbit(double(x)) && !std::signbit(double(y));
    };
    std::sort(a.begin(), a.end(), lt);
    std::sort(b.begin(), b.end(), lt);
    if (a.size() != b.size())
        return false;
    for (size_t i = 0; i < a.size(); ++i)
        if (!(a[i] == b[i])
            || std::signbit(double(a[i])) != std::signbit(double(b[i])))
            return false;
    return true;
}

template<class T, class Cmp>
bool sorted_by(std::vector<T> const& v, Cmp cmp)
{
    for (size_t i = 1; i < v.size(); ++i)
        if (cmp(v[i], v[i - 1]))
            return false;
    return true;
}

std::vector<int> gen_ints(Choices& c, CaseLog& log, int maxlen, int maxval)
{
    int len = int(c.int_in(0, maxlen));
    int span = int(c.int_in(1, maxval));
    std::vector<int> v(len);
    for (auto& x : v)
    {
        x = int(c.int_in(0, span)) - span / 2;
        log.mix(x);
    }
    return v;
}

double special_double(Choices& c)
{
    switch (c.int_in(0, 9))
    {
        case 0: return 0.0;
        case 1: return -0.0;
        case 2: return 4.9e-324;
        case 3: return -4.9e-324;
        case 4: return 2.2250738585072014e-308;
        case 5: return 1.0;
        case 6: return -1.0;
        case 7: return c.int_in(-3, 3);
        default: return c.signed_log_uniform(1e-300, 1e300);
    }
}

bool has_dup(std::vector<int> v)
{
    std::sort(v.begin(), v.end());
    return std::adjacent_find(v.begin(), v.end()) != v.end();
}

Verdict k_sort(Choices& c, CaseLog& log)
{
    log.label("sort");
    int cmpkind = int(c.int_in(0, 3));
    log.mix(cmpkind);
    if (cmpkind < 3)
    {
        auto v = gen_ints(c, log, 40, 12);
        log.d("kind", "\"sort-int\"");
        log.d("cmp", cmpkind);
        if (log.want_desc)
        {
            std::vector<double> dv(v.begin(), v.end());
            log.dv("seq", dv.data(), int(dv.size()));
        }
        auto got = v;
        auto ref = v;
        if (cmpkind == 0)
        {
            celeritas::sort(got.begin(), got.end());
            std::sort(ref.begin(), ref.end());
        }
        else if (cmpkind == 1)
        {
            celeritas::sort(got.begin(), got.end(), std::greater<int>());
            std::sort(ref.begin(), ref.end(), std::greater<int>());
        }
        else
        {
            // index-indirect comparator as in SimpleUnitTracker
            std::vector<size_type> idx(v.size()), ridx(v.size());
            std::iota(idx.begin(), idx.end(), 0);
            ridx = idx;
            auto cmp = [&v](size_type a, size_type b) { return v[a] < v[b]; };
            celeritas::sort(idx.begin(), idx.end(), cmp);
            if (!sorted_by(idx, cmp))
                return log.fail("indirect sort: output not ordered");
            auto s = idx;
            std::sort(s.begin(), s.end());
            if (s != ridx)
                return log.fail("indirect sort: not a permutation");
            log.nontrivial = v.size() >= 3 && has_dup(v);
            return Verdict::pass;
        }
        if (got != ref)
            return log.fail("sort(int) differs from std::sort");
        log.nontrivial = v.size() >= 3 && has_dup(v);
        return Verdict::pass;
    }
    // doubles with +-0 and denormals
    int len = int(c.int_in(0, 24));
    std::vector<double> v(len);
    for (auto& x : v)
    {
        x = special_double(c);
        log.mix(x);
    }
    log.d("kind", "\"sort-real\"");
    log.dv("seq", v.data(), len);
    auto got = v;
    celeritas::sort(got.begin(), got.end());
    if (!sorted_by(got, std::less<double>()))
        return log.fail("sort(double): output not ordered");
    if (!is_perm(got, v))
        return log.fail("sort(double): output is not a permutation of input");
    log.nontrivial = len >= 3;
    return Verdict::pass;
}

Verdict k_partition(Choices& c, CaseLog& log)
{
    log.label("partition");
    auto v = gen_ints(c, log, 40, 8);
    int piv = int(c.int_in(-5, 5));
    log.mix(piv);
    log.d("kind", "\"partition\"");
    log.d("pivot", piv);
    if (log.want_desc)
    {
        std::vector<double> dv(v.begin(), v.end());
        log.dv("seq", dv.data(), int(dv.size()));
    }
    auto pred = [piv](int x) { return x < piv; };
    auto b = v;
    auto it = celeritas::partition(b.begin(), b.end(), pred);
    long k = it - b.begin();
    long expect = std::count_if(v.begin(), v.end(), pred);
    if (k != expect)
        return log.fail("partition: split point != count of true elements");
    if (!std::all_of(b.begin(), it, pred) || std::any_of(it, b.end(), pred))
        return log.fail("partition: predicate not separated at split");
    auto s1 = b, s2 = v;
    std::sort(s1.begin(), s1.end());
    std::sort(s2.begin(), s2.end());
    if (s1 != s2)
        return log.fail("partition: multiset changed");
    log.nontrivial = v.size() >= 3 && expect > 0 && expect < long(v.size());
    return Verdict::pass;
}

Verdict k_search(Choices& c, CaseLog& log)
{
    log.label("search");
    auto v = gen_ints(c, log, 48, 10);
    log.d("kind", "\"search\"");
    if (log.want_desc)
    {
        std::vector<double> dv(v.begin(), v.end());
        log.dv("seq", dv.data(), int(dv.size()));
    }
    auto s = v;
    std::sort(s.begin(), s.end());
    bool desc_order = c.boolean(0.3);
    for (int q = -7; q <= 7; ++q)
    {
        if (!desc_order)
        {
            if (celeritas::lower_bound(s.begin(), s.end(), q)
                != std::lower_bound(s.begin(), s.end(), q))
                return log.fail("lower_bound differs q=" + std::to_string(q));
            if (celeritas::upper_bound(s.begin(), s.end(), q)
                != std::upper_bound(s.begin(), s.end(), q))
                return log.fail("upper_bound differs q=" + std::to_string(q));
            if (celeritas::lower_bound_linear(s.begin(), s.end(), q)
                != std::lower_bound(s.begin(), s.end(), q))
                return log.fail("lower_bound_linear differs q="
                                + std::to_string(q));
            auto f = celeritas::find_sorted(s.begin(), s.end(), q);
            auto lb = std::lower_bound(s.begin(), s.end(), q);
            auto ef = (lb != s.end() && *lb == q) ? lb : s.end();
            if (f != ef)
                return log.fail("find_sorted differs q=" + std::to_string(q));
        }
        else
        {
            auto r = s;
            std::reverse(r.begin(), r.end());
            auto gt = std::greater<int>();
            if (celeritas::lower_bound(r.begin(), r.end(), q, gt)
                != std::lower_bound(r.begin(), r.end(), q, gt))
                return log.fail("lower_bound(greater) differs");
            if (celeritas::upper_bound(r.begin(), r.end(), q, gt)
                != std::upper_bound(r.begin(), r.end(), q, gt))
                return log.fail("upper_bound(greater) differs");
            if (celeritas::lower_bound_linear(r.begin(), r.end(), q, gt)
                != std::lower_bound(r.begin(), r.end(), q, gt))
                return log.fail("lower_bound_linear(greater) differs");
            auto f = celeritas::find_sorted(r.begin(), r.end(), q, gt);
            auto lb = std::lower_bound(r.begin(), r.end(), q, gt);
            auto ef = (lb != r.end() && *lb == q) ? lb : r.end();
            if (f != ef)
                return log.fail("find_sorted(greater) differs");
        }
    }
    if (!v.empty())
    {
        if (celeritas::min_element(v.begin(), v.end())
            != std::min_element(v.begin(), v.end()))
            return log.fail("min_element differs (first minimum expected)");
        if (celeritas::min_element(v.begin(), v.end(), std::greater<int>())
            != std::min_element(v.begin(), v.end(), std::greater<int>()))
            return log.fail("min_element(greater) differs");
    }
    else if (celeritas::min_element(v.begin(), v.end()) != v.end())
        return log.fail("min_element on empty range != last");
    int t = int(c.int_in(-5, 5));
    auto p = [t](int x) { return x <= t; };
    if (celeritas::all_of(v.begin(), v.end(), p)
        != std::all_of(v.begin(), v.end(), p))
        return log.fail("all_of differs");
    if (celeritas::any_of(v.begin(), v.end(), p)
        != std::any_of(v.begin(), v.end(), p))
        return log.fail("any_of differs");
    {
        auto adj = [](int a, int b) { return a <= b; };
        bool ref = true;
        for (size_t i = 1; i < v.size(); ++i)
            ref = ref && adj(v[i - 1], v[i]);
        if (celeritas::all_adjacent(v.begin(), v.end(), adj) != ref)
            return log.fail("all_adjacent differs");
        auto ne = [](int a, int b) { return a != b; };
        ref = true;
        for (size_t i = 1; i < s.size(); ++i)
            ref = ref && ne(s[i - 1], s[i]);
        if (celeritas::all_adjacent(s.begin(), s.end(), ne) != ref)
            return log.fail("all_adjacent(!=) differs");
    }
    log.nontrivial = v.size() >= 3 && has_dup(v);
    return Verdict::pass;
}

Verdict k_range(Choices& c, CaseLog& log)
{
    log.label("range");
    int a = int(c.int_in(-20, 20));
    int n = int(c.int_in(0, 40));
    int b = a + n;
    int st = int(c.int_in(1, 7));
    bool neg = c.boolean(0.4);
    log.mix(a);
    log.mix(n);
    log.mix(st);
    log.mix(int(neg));
    log.d("kind", "\"range\"");
    log.d("a", a);
    log.d("b", b);
    log.d("step", neg ? -st : st);
    std::vector<int> got, ref;
    for (auto i : celeritas::range(a, b))
        got.push_back(i);
    for (int i = a; i < b; ++i)
        ref.push_back(i);
    if (got != ref)
        return log.fail("range(a,b) differs from loop");
    auto r = celeritas::range(a, b);
    if (long(r.size()) != n || r.empty() != (n == 0))
        return log.fail("range size/empty wrong");
    if (n > 0 && (r.front() != a || r.back() != b - 1 || r[n / 2] != a + n / 2))
        return log.fail("range front/back/[] wrong");
    got.clear();
    ref.clear();
    if (a >= 0)
    {
        for (auto i : celeritas::range(unsigned(b)))
            got.push_back(int(i));
        for (unsigned i = 0; i < unsigned(b); ++i)
            ref.push_back(int(i));
        if (got != ref)
            return log.fail("range(end) differs from loop");
    }
    // stepped
    got.clear();
    ref.clear();
    if (!neg)
    {
        for (auto i : celeritas::range(a, b).step(st))
            got.push_back(i);
        for (int i = a; i < b; i += st)
            ref.push_back(i);
        if (got != ref)
            return log.fail("range.step(+s) differs from loop");
        got.clear();
        ref.clear();
        if (a >= 0)
        {
            for (auto i : celeritas::range(unsigned(a), unsigned(b))
                              .step(unsigned(st)))
                got.push_back(int(i));
            for (unsigned i = a; i < unsigned(b); i += st)
                ref.push_back(int(i));
            if (got != ref)
                return log.fail("range<unsigned>.step(+s) differs from loop");
        }
    }
    else if (n > 0 && n % st == 0)
    {
        // documented usage: reversed range with a step dividing the length
        for (auto i : celeritas::range(a, b).step(-st))
            got.push_back(i);
        for (int i = b - st; i >= a; i -= st)
            ref.push_back(i);
        if (got != ref)
            return log.fail("range.step(-s) differs from loop");
    }
    // count
    got.clear();
    ref.clear();
    for (auto i : celeritas::count(a))
    {
        if (int(got.size()) >= n)
            break;
        got.push_back(i);
    }
    for (int i = 0; i < n; ++i)
        ref.push_back(a + i);
    if (got != ref)
        return log.fail("count(a) differs");
    got.clear();
    ref.clear();
    for (auto i : celeritas::count(a).step(neg ? -st : st))
    {
        if (int(got.size()) >= n)
            break;
        got.push_back(i);
    }
    for (int i = 0; i < n; ++i)
        ref.push_back(a + i * (neg ? -st : st));
    if (got != ref)
        return log.fail("count(a).step(s) differs");
    log.nontrivial = n >= 2;
    return Verdict::pass;
}

Verdict k_span_index(Choices& c, CaseLog& log)
{
    log.label("span-indexer");
    log.d("kind", "\"span-indexer\"");
    // Span subviews
    int n = int(c.int_in(0, 30));
    std::vector<int> v(n);
    std::iota(v.begin(), v.end(), 100);
    celeritas::Span<int> s(v.data(), v.size());
    int off = int(c.int_in(0, n));
    int cnt = int(c.int_in(0, n - off));
    log.mix(n);
    log.mix(off);
    log.mix(cnt);
    log.d("n", n);
    log.d("offset", off);
    log.d("count", cnt);
    auto sub = s.subspan(off, cnt);
    if (int(sub.size()) != cnt || (cnt && sub.data() != v.data() + off))
        return log.fail("subspan(offset,count) wrong");
    auto sub2 = s.subspan(off);
    if (int(sub2.size()) != n - off)
        return log.fail("subspan(offset) wrong size");
    auto f = s.first(cnt);
    auto l = s.last(cnt);
    if (int(f.size()) != cnt || (cnt && f.data() != v.data()))
        return log.fail("first(n) wrong");
    if (int(l.size()) != cnt || (cnt && l.data() != v.data() + n - cnt))
        return log.fail("last(n) wrong");
    if (n && (s.front() != 100 || s.back() != 100 + n - 1))
        return log.fail("front/back wrong");

    // Hyperslab round trip over all indices
    celeritas::Array<size_type, 3> dims{size_type(c.int_in(1, 6)),
                                        size_type(c.int_in(1, 6)),
                                        size_type(c.int_in(1, 6))};
    log.mix(dims[0] * 100 + dims[1] * 10 + dims[2]);
    celeritas::HyperslabIndexer<3> to(dims);
    celeritas::HyperslabInverseIndexer<3> from(dims);
    size_type idx = 0;
    for (size_type i = 0; i < dims[0]; ++i)
        for (size_type j = 0; j < dims[1]; ++j)
            for (size_type k = 0; k < dims[2]; ++k)
            {
                celeritas::Array<size_type, 3> xyz{i, j, k};
                if (to(xyz) != idx)
                    return log.fail("HyperslabIndexer not row-major");
                auto back = from(idx);
                if (back[0] != i || back[1] != j || back[2] != k)
                    return log.fail("HyperslabInverseIndexer round trip");
                ++idx;
            }
    celeritas::Array<size_type, 4> d4{size_type(c.int_in(1, 4)),
                                      size_type(c.int_in(1, 4)),
                                      size_type(c.int_in(1, 4)),
                                      size_type(c.int_in(1, 4))};
    celeritas::HyperslabIndexer<4> to4(d4);
    celeritas::HyperslabInverseIndexer<4> from4(d4);
    size_type tot4 = d4[0] * d4[1] * d4[2] * d4[3];
    for (size_type i = 0; i < tot4; ++i)
    {
        auto cc = from4(i);
        for (int a = 0; a < 4; ++a)
            if (cc[a] >= d4[a])
                return log.fail("Hyperslab4 coordinate out of extent");
        if (to4(cc) != i)
            return log.fail("Hyperslab4 round trip");
    }

    // Ragged right
    celeritas::RaggedRightIndexerData<4> rrd;
    size_type sizes[4];
    rrd.offsets[0] = 0;
    for (int i = 0; i < 4; ++i)
    {
        sizes[i] = size_type(c.int_in(1, 5));
        rrd.offsets[i + 1] = rrd.offsets[i] + sizes[i];
    }
    celeritas::detail::RaggedRightIndexer<4> rto(rrd);
    celeritas::detail::RaggedRightInverseIndexer<4> rfrom(rrd);
    size_type flat = 0;
    for (size_type i = 0; i < 4; ++i)
        for (size_type j = 0; j < sizes[i]; ++j)
        {
            if (rto({i, j}) != flat)
                return log.fail("RaggedRightIndexer flat index");
            auto b = rfrom(flat);
            if (b[0] != i || b[1] != j)
                return log.fail("RaggedRightInverseIndexer round trip");
            ++flat;
        }
    log.nontrivial = idx > 1 && n > 1;
    return Verdict::pass;
}

template<unsigned N>
bool check_ipow(long v)
{
    __int128 r = 1;
    for (unsigned i = 0; i < N; ++i)
        r *= v;
    if (r > (__int128)INT64_MAX || r < (__int128)INT64_MIN)
        return true;  // overflow: outside domain
    return celeritas::ipow<N>(v) == long(r);
}

Verdict k_math(Choices& c, CaseLog& log)
{
    log.label("math");
    log.d("kind", "\"math\"");
    // integers
    unsigned long top = (unsigned long)c.log_u64() >> int(c.int_in(0, 40));
    unsigned long bot = 1 + ((unsigned long)c.log_u64() >> int(c.int_in(8, 60)));
    log.mix(uint64_t(top));
    log.mix(uint64_t(bot));
    log.d("top", top);
    log.d("bottom", bot);
    {
        // "integer division, rounding up": the quotient always fits the type,
        // so the exact (128-bit) value is the reference for ALL operands,
        // including those next to the type's maximum
        int edge = int(c.pick({6, 1, 1, 1}));
        log.mix(edge);
        unsigned a32 = unsigned(top), b32 = unsigned(bot) ? unsigned(bot) : 1;
        if (edge == 1)
        {
            top = UINT64_MAX - (unsigned long)c.int_in(0, 8);
            a32 = UINT32_MAX - unsigned(c.int_in(0, 8));
            log.label("ceil_div:top-at-max");
        }
        else if (edge == 2)
        {
            bot = UINT64_MAX - (unsigned long)c.int_in(0, 8);
            b32 = UINT32_MAX - unsigned(c.int_in(0, 8));
            log.label("ceil_div:bottom-at-max");
        }
        else if (edge == 3)
        {
            // top + bottom just wraps
            top = UINT64_MAX - bot + (unsigned long)c.int_in(0, 3);
            a32 = UINT32_MAX - b32 + unsigned(c.int_in(0, 3));
            log.label("ceil_div:sum-wraps");
        }
        unsigned long got = celeritas::ceil_div(top, bot);
        unsigned __int128 t = top;
        unsigned long ref = (unsigned long)((t + bot - 1) / bot);
        if (got != ref)
            return log.fail("ceil_div<unsigned long>(" + std::to_string(top)
                            + ", " + std::to_string(bot) + ") = "
                            + std::to_string(got) + ", exact "
                            + std::to_string(ref));
        unsigned got32 = celeritas::ceil_div(a32, b32);
        unsigned ref32 = unsigned((uint64_t(a32) + b32 - 1) / b32);
        if (got32 != ref32)
            return log.fail("ceil_div<unsigned>(" + std::to_string(a32) + ", "
                            + std::to_string(b32) + ") = "
                            + std::to_string(got32) + ", exact "
                            + std::to_string(ref32));
    }
    long iv = long(c.int_in(-40, 40));
    log.mix(iv);
    log.d("ipow_arg", iv);
    if (!check_ipow<0>(iv) || !check_ipow<1>(iv) || !check_ipow<2>(iv)
        || !check_ipow<3>(iv) || !check_ipow<4>(iv) || !check_ipow<5>(iv)
        || !check_ipow<6>(iv) || !check_ipow<7>(iv) || !check_ipow<9>(iv)
        || !check_ipow<11>(iv))
        return log.fail("ipow<N> differs from exact integer power");
    // reals
    double x = special_double(c), y = special_double(c), z = special_double(c);
    log.mix(x);
    log.mix(y);
    log.mix(z);
    double xyz[3] = {x, y, z};
    log.dv("xyz", xyz, 3);
    if (celeritas::signum(x) != (x > 0 ? 1 : x < 0 ? -1 : 0))
        return log.fail("signum(real) wrong");
    if (celeritas::signum(iv) != (iv > 0 ? 1 : iv < 0 ? -1 : 0))
        return log.fail("signum(int) wrong");
    {
        // diffsq(a, b) = a^2 - b^2 "with less cancellation"
        long double ref = (long double)x * x - (long double)y * y;
        double got = celeritas::diffsq(x, y);
        if (std::isfinite(double(ref)) && std::isfinite(x * x)
            && std::isfinite(y * y) && std::fabs(x) > 1e-150
            && std::fabs(y) > 1e-150)
        {
            long double scale = (long double)x * x + (long double)y * y;
            if (fabsl(got - ref) > 4 * 2.3e-16L * scale)
                return log.fail("diffsq differs from long double reference");
        }
    }
    {
        double lo = std::fmin(x, y), hi = std::fmax(x, y);
        double got = celeritas::clamp(z, lo, hi);
        double ref = z < lo ? lo : z > hi ? hi : z;
        if (!(got == ref))
            return log.fail("clamp differs");
        double cn = celeritas::clamp_to_nonneg(z);
        if (!(cn == (z > 0 ? z : 0)))
            return log.fail("clamp_to_nonneg differs");
        if (!(celeritas::min(x, y) == std::fmin(x, y))
            || !(celeritas::max(x, y) == std::fmax(x, y)))
            return log.fail("min/max(real) differ from fmin/fmax");
        if (celeritas::min(iv, long(3)) != std::min(iv, long(3))
            || celeritas::max(iv, long(3)) != std::max(iv, long(3)))
            return log.fail("min/max(int) differ");
    }
    {
        // eumod: result in [0, |d|) and congruent to numer
        double num = c.signed_log_uniform(1e-3, 1e6);
        double den = c.signed_log_uniform(1e-3, 1e3);
        if (c.boolean(0.3))
            num = std::round(num), den = std::round(den) ? std::round(den) : 1;
        log.mix(num);
        log.mix(den);
        log.d("eumod_num", num);
        log.d("eumod_den", den);
        double r = celeritas::eumod(num, den);
        double ad = std::fabs(den);
        if (!(r >= 0 && r <= ad))
            return log.fail("eumod result outside [0, |denom|]");
        long double k = ((long double)num - r) / den;
        if (fabsl(k - roundl(k)) > 1e-9L * (1 + fabsl(k)))
            return log.fail("eumod result not congruent to numerator");
        if (num >= 0 && den > 0 && r != std::fmod(num, den))
            return log.fail("eumod != fmod for positive operands");
    }
    {
        double a = c.log_uniform(1e-6, 1e6);
        double b = c.real_in(-8, 8);
        log.mix(a);
        log.mix(b);
        double got = celeritas::fastpow(a, b);
        long double ref = powl(a, b);
        if (fabsl(got - ref) > 1e-13L * fabsl(ref))
            return log.fail("fastpow differs from powl");
        double rs = celeritas::rsqrt(a);
        if (fabsl(rs - 1 / sqrtl(a)) > 4e-16L / sqrtl(a))
            return log.fail("rsqrt differs from 1/sqrtl");
        double ang = c.real_in(-4, 4);
        if (c.boolean(0.3))
            ang = std::round(ang * 4) / 4;
        log.mix(ang);
        log.d("angle_pi", ang);
        double s, co;
        celeritas::sincospi(ang, &s, &co);
        long double rs_ = sinl(M_PIl * (long double)ang);
        long double rc_ = cosl(M_PIl * (long double)ang);
        if (fabsl(s - rs_) > 1e-15L || fabsl(co - rc_) > 1e-15L)
            return log.fail("sincospi differs from long double reference");
        if (fabsl(celeritas::sinpi(ang) - rs_) > 1e-15L
            || fabsl(celeritas::cospi(ang) - rc_) > 1e-15L)
            return log.fail("sinpi/cospi differ from long double reference");
        double s2, c2;
        celeritas::sincos(ang, &s2, &c2);
        if (fabsl(s2 - sinl(ang)) > 1e-15L || fabsl(c2 - cosl(ang)) > 1e-15L)
            return log.fail("sincos differs");
        if (celeritas::negate(0.0) != 0.0 || std::signbit(celeritas::negate(0.0)))
            return log.fail("negate(0) must be +0");
        if (celeritas::negate(a) != -a)
            return log.fail("negate(a) != -a");
    }
    log.nontrivial = top > 0 && x != 0 && y != 0;
    return Verdict::pass;
}

}  // namespace

Verdict run_case(Choices& c, CaseLog& log)
{
    int kind = int(c.int_in(0, 5));
    log.mix(kind);
    switch (kind)
    {
        case 0: return k_sort(c, log);
        case 1: return k_partition(c, log);
        case 2: return k_search(c, log);
        case 3: return k_range(c, log);
        case 4: return k_span_index(c, log);
        default: return k_math(c, log);
    }
}

// Exhaustive small scope: every sequence over {0..3} of length <= 8
bool run_exhaustive(ExhaustiveResult& r)
{
    r.scope
        = "all 87381 sequences over {0,1,2,3} of length 0..8: sort (<, >, "
          "index-indirect), partition (4 pivots), lower/upper_bound, "
          "lower_bound_linear, find_sorted (6 queries), min_element";
    auto fail = [&r](std::string m, std::vector<int> const& v) {
        r.violated = true;
        r.msg = m + " on sequence [";
        for (int x : v)
            r.msg += std::to_string(x) + " ";
        r.msg += "]";
        return true;
    };
    for (int len = 0; len <= 8; ++len)
    {
        long total = 1;
        for (int i = 0; i < len; ++i)
            total *= 4;
        for (long code = 0; code < total; ++code)
        {
            std::vector<int> v(len);
            long cc = code;
            for (int i = 0; i < len; ++i)
            {
                v[i] = cc % 4;
                cc /= 4;
            }
            ++r.evaluations;
            if (len >= 3 && has_dup(v))
                ++r.nontrivial;
            {
                auto a = v, b = v;
                std::sort(a.begin(), a.end());
                celeritas::sort(b.begin(), b.end());
                if (a != b)
                    return fail("sort(<)", v);
                a = v;
                b = v;
                std::sort(a.begin(), a.end(), std::greater<int>());
                celeritas::sort(b.begin(), b.end(), std::greater<int>());
                if (a != b)
                    return fail("sort(>)", v);
                std::vector<size_type> idx(len);
                std::iota(idx.begin(), idx.end(), 0);
                auto cmp
                    = [&v](size_type x, size_type y) { return v[x] < v[y]; };
                celeritas::sort(idx.begin(), idx.end(), cmp);
                if (!sorted_by(idx, cmp))
                    return fail("sort(indirect) order", v);
                auto s = idx;
                std::sort(s.begin(), s.end());
                for (int i = 0; i < len; ++i)
                    if (s[i] != size_type(i))
                        return fail("sort(indirect) permutation", v);
            }
            for (int piv = 0; piv < 4; ++piv)
            {
                auto b = v;
                auto pred = [piv](int x) { return x < piv; };
                auto it = celeritas::partition(b.begin(), b.end(), pred);
                long k = it - b.begin();
                long expect = std::count_if(v.begin(), v.end(), pred);
                bool ok = (k == expect) && std::all_of(b.begin(), it, pred)
                          && std::none_of(it, b.end(), pred);
                auto s1 = b, s2 = v;
                std::sort(s1.begin(), s1.end());
                std::sort(s2.begin(), s2.end());
                if (!ok || s1 != s2)
                    return fail("partition", v);
            }
            {
                auto s = v;
                std::sort(s.begin(), s.end());
                for (int q = -1; q <= 4; ++q)
                {
                    if (celeritas::lower_bound(s.begin(), s.end(), q)
                        != std::lower_bound(s.begin(), s.end(), q))
                        return fail("lower_bound", s);
                    if (celeritas::upper_bound(s.begin(), s.end(), q)
                        != std::upper_bound(s.begin(), s.end(), q))
                        return fail("upper_bound", s);
                    if (celeritas::lower_bound_linear(s.begin(), s.end(), q)
                        != std::lower_bound(s.begin(), s.end(), q))
                        return fail("lower_bound_linear", s);
                    auto f = celeritas::find_sorted(s.begin(), s.end(), q);
                    auto lb = std::lower_bound(s.begin(), s.end(), q);
                    auto ef = (lb != s.end() && *lb == q) ? lb : s.end();
                    if (f != ef)
                        return fail("find_sorted", s);
                }
            }
            if (len > 0
                && celeritas::min_element(v.begin(), v.end())
                       != std::min_element(v.begin(), v.end()))
                return fail("min_element", v);
        }
    }
    r.samples.push_back("[3 1 2 1 0 3 3 2] (one of 65536 length-8 sequences)");
    return true;
}

}  // namespace verif
