// C16 — running out of secondary or initializer storage never corrupts or
// loses physics (fault enumeration over capacities).
#include <cstring>
#include <map>
#include <sstream>

#include "caselog.hh"
#include "simcheck.hh"
#include "simrun.hh"

namespace verif
{
char const* const kPropertyId = "C16";
char const* const kHarness = "c16_starve";
size_t const kMaxBytes = 704;
char const* const kRule
    = "problem as for C01, first run with ample storage, then re-run (a) "
      "with the secondary stack capacity set to each value of a generated "
      "set from {1..8} (capacity = slots x factor) and (b) with a track "
      "initializer capacity from {1..16} or aimed at the queue peak observed "
      "in the ample run (70 % of the cases use 1-6 track slots), optionally "
      "with a second batch of primaries inserted while the event is in "
      "flight; oracle: (a) the event still "
      "completes and the C01 energy ledger holds exactly, a step whose "
      "post-step action is physics-failure creates no secondary and leaves "
      "position/energy untouched; (b) an 'insufficient capacity' RuntimeError "
      "is raised (no sanitizer report), and after reset_state() a following "
      "event that fits is bit-identical to the same event on a fresh state; "
      "non-trivial = the limit was actually hit (>= 1 failed allocation "
      "followed by a later successful interaction, or the error was thrown)";

void setup()
{
    geosrc_setup();
}

namespace
{
using namespace sim;

bool same_bits(double a, double b)
{
    return std::memcmp(&a, &b, sizeof(double)) == 0;
}

}  // namespace

Verdict run_case(Choices& c, CaseLog& log)
{
    GenOptions opt;
    opt.max_primary_energy = 20;
    Problem base;
    // most cases use few track slots so that initializers actually queue up
    Verdict v = setup_problem(c, log, opt, base, {}, {}, [](SimSpec& s) {
        if (s.track_slots % 10 < 7)
            s.track_slots = 1 + s.track_slots % 6;
    });
    if (v != Verdict::pass)
        return v;
    v = run_all_events(base, log, 20000);
    if (v != Verdict::pass)
        return v == Verdict::violation ? Verdict::trivial : v;
    int failure_action
        = int(base.w->core->action_reg()->find_action("physics-failure").get());
    int mode = int(c.pick({3, 2}));
    log.mix(mode);
    if (mode == 0)
    {
        // ---- (a) secondary stack starvation --------------------------------
        int cap = int(c.pick({3, 3, 2, 1, 1, 1, 1, 1})) + 1;
        log.mix(cap);
        log.d("secondary_capacity", cap);
        log.label("starve-secondaries");
        SimSpec s = base.spec;
        // capacity = static_cast<size_type>(slots * factor): aim just above
        s.secondary_stack_factor = (cap + 0.25) / s.track_slots;
        std::unique_ptr<World> w;
        try
        {
            w = build_world(s, base.src.fix->params);
        }
        catch (celeritas::RuntimeError const& e)
        {
            log.ds("rejected", e.what());
            return Verdict::rejected;
        }
        StepperInput si;
        si.params = w->core;
        si.stream_id = StreamId{0};
        si.num_track_slots = s.track_slots;
        Stepper<MemSpace::host> step(si);
        // actual capacity as allocated
        size_t real_cap = step.state_ref().physics.secondaries.capacity();
        log.d("allocated_capacity", real_cap);
        for (size_t e = 0; e < s.events.size(); ++e)
        {
            auto prim = make_primaries(*w, s.events[e], int(e));
            RunResult r = run_event(*w, step, prim, unsigned(e), 60000);
            if (r.error.find("insufficient") != std::string::npos)
                return Verdict::rejected;  // initializers, not this mode
            if (!r.error.empty())
                return log.fail("exception under secondary starvation "
                                "(capacity "
                                + std::to_string(real_cap) + "): " + r.error);
            if (!r.completed)
            {
                // livelock?  count repeated failures of the same track
                std::map<unsigned, long> fails;
                for (auto const& st : w->rec->steps)
                    if (st.action == failure_action)
                        ++fails[st.track];
                long worst = 0;
                for (auto const& kv : fails)
                    worst = std::max(worst, kv.second);
                if (worst > 1000 && real_cap < 2)
                {
                    // e+ annihilation needs two slots at once: a capacity of
                    // one can never satisfy it
                    return log.fail(
                        "event does not complete: a track fails to allocate "
                        + std::to_string(worst)
                        + " times in a row with secondary capacity 1 "
                          "(interaction needs 2 slots)",
                        "F5-secondary-capacity-below-single-interaction");
                }
                if (worst > 1000)
                    return log.fail(
                        "event does not complete under secondary starvation: "
                        "a track failed to allocate "
                        + std::to_string(worst) + " times (capacity "
                        + std::to_string(real_cap) + ")");
                log.label("budget-exhausted");
                return Verdict::trivial;
            }
        }
        if (w->rec->has_nan)
            return log.fail("NaN in the step stream under starvation");
        LedgerStats st;
        std::string msg = check_ledger(*w, w->rec->steps, &st);
        if (!msg.empty())
            return log.fail("with secondary capacity "
                            + std::to_string(real_cap) + ": " + msg);
        // failed steps: nothing emitted, nothing changed by the failure
        auto events = split_events(w->rec->steps);
        long nfail = 0, recovered = 0;
        for (auto const& ek : events)
        {
            std::map<unsigned, std::vector<StepRec const*>> children;
            for (auto const& tk : ek.second.tracks)
                if (tk.second.parent >= 0)
                    children[unsigned(tk.second.parent)].push_back(
                        tk.second.steps.front());
            for (auto const& tk : ek.second.tracks)
            {
                auto const& steps = tk.second.steps;
                for (size_t k = 0; k < steps.size(); ++k)
                {
                    StepRec const& sr = *steps[k];
                    if (sr.action != failure_action)
                        continue;
                    ++nfail;
                    // the failed track stays in flight
                    if (k + 1 == steps.size())
                        return log.fail("a track ends with the physics-failure "
                                        "action (track "
                                        + std::to_string(sr.track) + ")");
                    // no child is born at this step's post-step point/time
                    for (StepRec const* ch : children[sr.track])
                    {
                        bool here = same_bits(ch->pre.time, sr.post.time);
                        for (int a = 0; a < 3; ++a)
                            here = here
                                   && same_bits(ch->pre.pos[a], sr.post.pos[a]);
                        // (a child born in an EARLIER/LATER successful
                        // interaction at exactly this point is only possible
                        // for zero-length steps)
                        if (here && sr.length > 0)
                        {
                            bool other = false;
                            for (StepRec const* s2 : steps)
                                if (s2 != &sr && s2->action != failure_action
                                    && same_bits(s2->post.time, sr.post.time))
                                    other = true;
                            if (!other)
                                return log.fail(
                                    "a secondary was emitted by a step whose "
                                    "interaction failed to allocate (track "
                                    + std::to_string(sr.track) + " step "
                                    + std::to_string(sr.step_count) + ")");
                        }
                    }
                    // a later successful discrete interaction of this track?
                    for (size_t j = k + 1; j < steps.size(); ++j)
                        if (steps[j]->action != failure_action)
                        {
                            ++recovered;
                            break;
                        }
                }
            }
        }
        log.count("failed_allocations", nfail);
        log.count("recovered_after_failure", recovered);
        log.nontrivial = nfail >= 1 && recovered >= 1;
        return Verdict::pass;
    }

    // ---- (b) initializer starvation ---------------------------------------
    // capacity aimed at the need observed in the ample run: the largest
    // number of pending initializers (end-of-step `queued`) and the largest
    // batch of primaries
    long peak = 0, nprim = 0;
    for (auto const& rr : base.runs)
        for (auto const& res : rr.results)
            peak = std::max<long>(peak, long(res.queued));
    for (auto const& ev : base.spec.events)
        nprim = std::max<long>(nprim, long(ev.size()));
    int cap;
    int how = int(c.pick({3, 4, 2}));
    if (how == 1 && peak > nprim)
    {
        // primaries fit, the queue overflows in flight
        cap = int(nprim + c.int_in(0, peak - nprim - 1));
        log.label("capacity-between-primaries-and-peak");
    }
    else if (how == 2 && peak >= 1)
    {
        cap = int(std::max<long>(1, peak - c.int_in(0, 1)));  // at the edge
        log.label("capacity-at-peak");
    }
    else
        cap = int(c.int_in(1, 16));
    log.mix(cap);
    log.d("initializer_capacity", cap);
    log.d("observed_peak_queue", peak);
    log.label("starve-initializers");
    // optional second batch of primaries inserted while the event is in
    // flight (pending + new must fit, or the error must come BEFORE anything
    // is written)
    bool inject = c.boolean(0.4);
    long inject_after = long(c.int_in(1, 4));
    log.mix(int(inject) * 8 + int(inject_after));
    SimSpec s = base.spec;
    s.init_capacity = cap;
    std::unique_ptr<World> w;
    try
    {
        w = build_world(s, base.src.fix->params);
    }
    catch (celeritas::RuntimeError const& e)
    {
        return Verdict::rejected;
    }
    StepperInput si;
    si.params = w->core;
    si.stream_id = StreamId{0};
    si.num_track_slots = s.track_slots;
    Stepper<MemSpace::host> step(si);
    bool thrown = false;
    for (size_t e = 0; e < s.events.size() && !thrown; ++e)
    {
        auto prim = make_primaries(*w, s.events[e], int(e));
        std::vector<Primary> prim2;
        if (inject)
            prim2 = make_primaries(*w, s.events[(e + 1) % s.events.size()], int(e));
        RunResult r = run_event(*w, step, prim, unsigned(e), 60000,
                                inject ? &prim2 : nullptr, inject_after);
        if (r.injected)
            log.label("second-batch-in-flight");
        if (r.error.find("insufficient") != std::string::npos)
        {
            thrown = true;
            break;
        }
        if (!r.error.empty())
            return log.fail("unexpected exception with initializer capacity "
                            + std::to_string(cap) + ": " + r.error);
        if (!r.completed)
        {
            log.label("budget-exhausted");
            return Verdict::trivial;
        }
    }
    if (!thrown)
    {
        // everything fitted: the ledger must still hold
        LedgerStats st;
        std::string msg = check_ledger(*w, w->rec->steps, &st);
        if (!msg.empty())
            return log.fail("with initializer capacity " + std::to_string(cap)
                            + ": " + msg);
        log.label("capacity-sufficient");
        return Verdict::pass;
    }
    // recover: reset and run a small event that fits; compare with fresh run
    step.reset_state();
    std::vector<PrimarySpec> small = {base.spec.events[0][0]};
    small[0].energy = std::min(small[0].energy, 0.05);
    small[0].pdg = 22;
    auto run_small = [&](World& ww, Stepper<MemSpace::host>& st,
                         std::vector<StepRec>* out) {
        ww.rec->steps.clear();
        auto prim = make_primaries(ww, small, 3);
        RunResult r = run_event(ww, st, prim, 4242, 20000);
        *out = ww.rec->steps;
        return r;
    };
    std::vector<StepRec> after, fresh;
    RunResult ra = run_small(*w, step, &after);
    if (ra.error.find("insufficient") != std::string::npos)
    {
        log.label("small-event-does-not-fit");
        log.nontrivial = true;
        return Verdict::pass;
    }
    if (!ra.error.empty() || !ra.completed)
        return log.fail("after an 'insufficient capacity' error and "
                        "reset_state() a small event fails: "
                        + ra.error);
    std::unique_ptr<World> w2 = build_world(s, base.src.fix->params);
    StepperInput si2 = si;
    si2.params = w2->core;
    Stepper<MemSpace::host> step2(si2);
    RunResult rf = run_small(*w2, step2, &fresh);
    if (!rf.error.empty() || !rf.completed)
        return Verdict::trivial;
    if (after.size() != fresh.size())
        return log.fail("event after error + reset_state() differs from the "
                        "fresh-state run: "
                        + std::to_string(after.size()) + " vs "
                        + std::to_string(fresh.size()) + " steps");
    for (size_t i = 0; i < after.size(); ++i)
    {
        StepRec const& a = after[i];
        StepRec const& b = fresh[i];
        bool ok = a.track == b.track && a.step_count == b.step_count
                  && a.action == b.action && same_bits(a.length, b.length)
                  && same_bits(a.edep, b.edep)
                  && same_bits(a.post.energy, b.post.energy)
                  && same_bits(a.post.time, b.post.time);
        for (int k = 0; k < 3; ++k)
            ok = ok && same_bits(a.post.pos[k], b.post.pos[k])
                 && same_bits(a.post.dir[k], b.post.dir[k]);
        if (!ok)
            return log.fail("event after error + reset_state() differs from "
                            "the fresh-state run at step "
                            + std::to_string(i));
    }
    log.count("capacity_errors", 1);
    log.nontrivial = true;
    return Verdict::pass;
}

bool run_exhaustive(ExhaustiveResult&)
{
    return false;
}

}  // namespace verif
