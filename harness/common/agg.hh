// Aggregation of case results inside one driver process and the shard
// summary it writes (folded into evidence/<id>.json by /verif/check).
#pragma once

#include <chrono>
#include <cstdio>
#include <cstdlib>
#include <fstream>
#include <map>
#include <string>
#include <unordered_set>
#include <vector>

#include "caselog.hh"

namespace verif
{
inline std::string to_hex(std::vector<uint8_t> const& b)
{
    static char const* d = "0123456789abcdef";
    std::string s;
    s.reserve(2 * b.size());
    for (uint8_t x : b)
    {
        s.push_back(d[x >> 4]);
        s.push_back(d[x & 15]);
    }
    return s;
}

inline std::string json_escape(std::string const& in)
{
    std::string o;
    for (char ch : in)
    {
        switch (ch)
        {
            case '"': o += "\\\""; break;
            case '\\': o += "\\\\"; break;
            case '\n': o += "\\n"; break;
            case '\t': o += "\\t"; break;
            default:
                if ((unsigned char)ch < 0x20)
                {
                    char buf[8];
                    std::snprintf(buf, sizeof buf, "\\u%04x", ch);
                    o += buf;
                }
                else
                    o.push_back(ch);
        }
    }
    return o;
}

struct KnownHit
{
    long count = 0;
    std::string msg;
    std::vector<uint8_t> bytes;
};

class Agg
{
  public:
    long evaluations = 0;
    long n_pass = 0, n_trivial = 0, n_rejected = 0, n_violation = 0;
    long n_nontrivial = 0;
    std::unordered_set<uint64_t> distinct;
    std::map<std::string, long> labels;
    std::map<std::string, long> counters;
    std::vector<std::string> samples;
    std::map<std::string, KnownHit> known;
    bool failed = false;  // an unlisted violation has been seen
    std::string fail_msg, fail_desc;
    std::vector<uint8_t> fail_bytes;
    std::chrono::steady_clock::time_point t0
        = std::chrono::steady_clock::now();
    std::chrono::steady_clock::time_point t_fail = t0;
    long shrink_attempts = 0;
    long max_shrink_attempts = 4000;
    double max_shrink_seconds = 90;

    // Run one case.  Returns the verdict; `is_known` set if the violation
    // carries a finding key.
    Verdict run(std::vector<uint8_t> const& bytes, bool* is_known = nullptr)
    {
        return run(bytes.data(), bytes.size(), is_known);
    }

    Verdict run(uint8_t const* data, size_t size, bool* is_known = nullptr)
    {
        Choices c(data, size);
        CaseLog log;
        Verdict v = Verdict::pass;
        if (!(failed && shrink_attempts >= max_shrink_attempts))
            v = run_case(c, log);
        bool known_hit = (v == Verdict::violation && !log.finding.empty());
        if (is_known)
            *is_known = known_hit;
        if (failed)
        {
            // shrinking phase: bounded (count first, wall clock as backstop)
            ++shrink_attempts;
            if (shrink_attempts > max_shrink_attempts
                || std::chrono::duration<double>(
                       std::chrono::steady_clock::now() - t_fail)
                           .count()
                       > max_shrink_seconds)
            {
                if (is_known)
                    *is_known = false;
                return Verdict::pass;
            }
            // only track the latest failing candidate
            if (v == Verdict::violation && !known_hit)
                this->record_failure(data, size, c, log);
            return v;
        }
        ++evaluations;
        switch (v)
        {
            case Verdict::pass: ++n_pass; break;
            case Verdict::trivial: ++n_trivial; break;
            case Verdict::rejected: ++n_rejected; break;
            case Verdict::violation: ++n_violation; break;
        }
        for (auto const* l : log.labels)
            ++labels[l];
        for (auto const& kv : log.counters)
            counters[kv.first] += kv.second;
        if (known_hit)
        {
            auto& k = known[log.finding];
            if (k.count++ == 0)
            {
                k.msg = log.msg;
                k.bytes.assign(data, data + std::min(size, c.consumed()));
            }
            return v;
        }
        if (v == Verdict::violation)
        {
            failed = true;
            t_fail = std::chrono::steady_clock::now();
            this->record_failure(data, size, c, log);
            return v;
        }
        if (log.nontrivial && v == Verdict::pass)
        {
            ++n_nontrivial;
            bool fresh = distinct.insert(log.hash).second;
            if (fresh
                && (samples.size() < 3
                    || (samples.size() < 8
                        && (n_nontrivial & (n_nontrivial - 1)) == 0)))
            {
                samples.push_back(this->describe(data, size));
            }
        }
        return v;
    }

    std::string describe(uint8_t const* data, size_t size)
    {
        Choices c(data, size);
        CaseLog log;
        log.want_desc = true;
        Verdict v = run_case(c, log);
        std::string s = "{" + log.desc.str() + "}";
        std::string lab;
        for (auto const* l : log.labels)
            lab += std::string(lab.empty() ? "" : ",") + l;
        std::string r = "{\"case\": \"" + json_escape(s) + "\", \"labels\": \""
                        + json_escape(lab) + "\", \"verdict\": "
                        + std::to_string(int(v)) + ", \"bytes\": \""
                        + to_hex(std::vector<uint8_t>(
                            data, data + std::min(size, c.consumed())))
                        + "\"}";
        return r;
    }

    void write(char const* path, long seed)
    {
        if (!path)
            return;
        double wall = std::chrono::duration<double>(
                          std::chrono::steady_clock::now() - t0)
                          .count();
        std::ofstream o(path);
        o << "{\"property\": \"" << kPropertyId << "\", \"harness\": \""
          << kHarness << "\", \"seed\": " << seed
          << ", \"evaluations\": " << evaluations << ", \"pass\": " << n_pass
          << ", \"trivial\": " << n_trivial << ", \"rejected\": " << n_rejected
          << ", \"violations\": " << n_violation
          << ", \"nontrivial\": " << n_nontrivial
          << ", \"distinct_nontrivial\": " << distinct.size()
          << ", \"wall_s\": " << wall << ", \"rule\": \""
          << json_escape(kRule) << "\",\n \"labels\": {";
        bool first = true;
        for (auto const& kv : labels)
        {
            o << (first ? "" : ", ") << '"' << json_escape(kv.first)
              << "\": " << kv.second;
            first = false;
        }
        o << "},\n \"counters\": {";
        first = true;
        for (auto const& kv : counters)
        {
            o << (first ? "" : ", ") << '"' << json_escape(kv.first)
              << "\": " << kv.second;
            first = false;
        }
        o << "},\n \"samples\": [";
        first = true;
        for (auto const& s : samples)
        {
            o << (first ? "" : ",\n  ") << s;
            first = false;
        }
        o << "],\n \"known\": {";
        first = true;
        for (auto const& kv : known)
        {
            o << (first ? "" : ", ") << '"' << json_escape(kv.first)
              << "\": {\"count\": " << kv.second.count << ", \"msg\": \""
              << json_escape(kv.second.msg) << "\", \"bytes\": \""
              << to_hex(kv.second.bytes) << "\"}";
            first = false;
        }
        o << "},\n \"failure\": ";
        if (failed)
        {
            o << "{\"msg\": \"" << json_escape(fail_msg) << "\", \"case\": \""
              << json_escape(fail_desc) << "\", \"bytes\": \""
              << to_hex(fail_bytes) << "\"}";
        }
        else
            o << "null";
        o << "}\n";
        o.close();
        // distinct hashes (binary) for cross-shard de-duplication
        std::string hp = std::string(path) + ".hashes";
        std::FILE* f = std::fopen(hp.c_str(), "wb");
        if (f)
        {
            for (uint64_t h : distinct)
                std::fwrite(&h, 8, 1, f);
            std::fclose(f);
        }
    }

  private:
    void record_failure(uint8_t const* data,
                        size_t size,
                        Choices const& c,
                        CaseLog const& log)
    {
        fail_msg = log.msg;
        fail_bytes.assign(data, data + std::min(size, c.consumed()));
        Choices c2(data, size);
        CaseLog l2;
        l2.want_desc = true;
        run_case(c2, l2);
        fail_desc = "{" + l2.desc.str() + "}";
    }
};

}  // namespace verif
