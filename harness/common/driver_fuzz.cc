// libFuzzer driver over the same harness function.  An unlisted violation
// flushes the statistics and traps (so libFuzzer saves a crash-* artifact);
// violations that match a listed finding are counted and the search goes on.
#include <cstdio>
#include <cstdlib>
#include <string>
#include <unistd.h>

#include "agg.hh"

namespace
{
verif::Agg* g_agg = nullptr;
std::string g_out;

void flush_stats()
{
    if (g_agg && !g_out.empty())
        g_agg->write(g_out.c_str(), 0);
}
}  // namespace

extern "C" int LLVMFuzzerInitialize(int*, char***)
{
    verif::setup();
    g_agg = new verif::Agg;
    if (char const* o = std::getenv("VERIF_OUT"))
    {
        g_out = std::string(o) + "." + std::to_string(getpid());
        std::atexit(flush_stats);
    }
    return 0;
}

extern "C" int LLVMFuzzerTestOneInput(uint8_t const* data, size_t size)
{
    bool known = false;
    verif::Verdict v = g_agg->run(data, size, &known);
    if (v == verif::Verdict::violation && !known)
    {
        std::fprintf(stderr,
                     "VERIF-ORACLE property=%s harness=%s: %s\n  case: %s\n",
                     verif::kPropertyId,
                     verif::kHarness,
                     g_agg->fail_msg.c_str(),
                     g_agg->fail_desc.c_str());
        flush_stats();
        __builtin_trap();
    }
    return 0;
}
