// Choice-sequence decoder: every generated case is a pure function of a byte
// string.  All decoders are MONOTONE in the bytes (never `b % n`) so that
// shrinking bytes toward zero shrinks the decoded value toward its minimum,
// and when the bytes run out every draw returns its minimal value (so every
// prefix of a case is a valid, simpler case).
#pragma once

#include <cmath>
#include <cstddef>
#include <cstdint>
#include <cstring>
#include <initializer_list>
#include <limits>
#include <vector>

namespace verif
{
class Choices
{
  public:
    Choices(uint8_t const* p, size_t n) : p_(p), n_(n) {}

    size_t consumed() const { return i_ < n_ ? i_ : n_; }
    size_t size() const { return n_; }
    bool exhausted() const { return i_ >= n_; }

    // Next byte (0 when exhausted)
    unsigned byte() { return i_ < n_ ? p_[i_++] : (++i_, 0u); }

    // k bytes, big-endian (most significant first => monotone in the first)
    uint64_t bits(int k)
    {
        uint64_t v = 0;
        for (int j = 0; j < k; ++j)
            v = (v << 8) | byte();
        return v;
    }

    // Integer in [lo, hi], monotone; uses the minimal number of bytes
    int64_t int_in(int64_t lo, int64_t hi)
    {
        if (hi <= lo)
            return lo;
        uint64_t range = uint64_t(hi - lo) + 1;  // number of values
        int k = 1;
        while (k < 8 && (uint64_t(1) << (8 * k)) < range)
            ++k;
        uint64_t v = bits(k);
        if (k == 8)
        {
            // 128-bit scaling
            unsigned __int128 t = (unsigned __int128)v * range;
            return lo + int64_t(uint64_t(t >> 64));
        }
        return lo + int64_t((v * range) >> (8 * k));
    }

    size_t index(size_t n) { return n ? size_t(int_in(0, int64_t(n) - 1)) : 0; }

    // true with probability ~p; minimal value is false
    bool boolean(double p = 0.5)
    {
        unsigned b = byte();
        return b >= 256 - unsigned(std::lround(p * 256)) && p > 0;
    }

    // [0, 1) with 16 / 32 / 53 bits of resolution
    double unit16() { return double(bits(2)) / 65536.0; }
    double unit32() { return double(bits(4)) / 4294967296.0; }
    double unit53()
    {
        return double(bits(7) >> 3) / 9007199254740992.0;
    }

    double real_in(double lo, double hi) { return lo + (hi - lo) * unit32(); }
    double real_in53(double lo, double hi)
    {
        return lo + (hi - lo) * unit53();
    }
    // log-uniform over [lo, hi], lo > 0
    double log_uniform(double lo, double hi)
    {
        double l0 = std::log(lo), l1 = std::log(hi);
        double v = std::exp(l0 + (l1 - l0) * unit32());
        return v < lo ? lo : (v > hi ? hi : v);
    }
    // symmetric: sign from one byte, magnitude log-uniform
    double signed_log_uniform(double lo, double hi)
    {
        bool neg = boolean();
        double m = log_uniform(lo, hi);
        return neg ? -m : m;
    }

    // Weighted pick: index into weights (minimal = first with weight > 0)
    size_t pick(std::initializer_list<double> w)
    {
        double tot = 0;
        for (double x : w)
            tot += x;
        double u = unit16() * tot;
        size_t i = 0, last = 0;
        for (double x : w)
        {
            if (x > 0)
            {
                last = i;
                if (u < x)
                    return i;
                u -= x;
            }
            ++i;
        }
        return last;
    }

    // Uniform direction on the sphere (minimal = +z)
    void unit_vector(double out[3])
    {
        double mu = 1 - 2 * unit32();
        double phi = 2 * M_PI * unit32();
        double s = std::sqrt(std::fmax(0.0, 1 - mu * mu));
        out[0] = s * std::cos(phi);
        out[1] = s * std::sin(phi);
        out[2] = mu;
        double n = std::sqrt(out[0] * out[0] + out[1] * out[1]
                             + out[2] * out[2]);
        for (int k = 0; k < 3; ++k)
            out[k] /= n;
    }

    // x moved by k ulps, k in [-maxk, maxk] (minimal = -maxk ... monotone)
    double ulp_neighbour(double x, int maxk)
    {
        int k = int(int_in(0, 2 * maxk)) - maxk;
        return step_ulps(x, k);
    }

    static double step_ulps(double x, int k)
    {
        double inf = std::numeric_limits<double>::infinity();
        for (; k > 0; --k)
            x = std::nextafter(x, inf);
        for (; k < 0; ++k)
            x = std::nextafter(x, -inf);
        return x;
    }

    // Full 64-bit value whose *bit length* is uniform (log-uniform over
    // [0, 2^64))
    uint64_t log_u64()
    {
        int nb = int(int_in(0, 64));
        if (nb == 0)
            return 0;
        uint64_t v = bits(8);
        if (nb < 64)
            v &= (uint64_t(1) << nb) - 1;
        v |= uint64_t(1) << (nb - 1);
        return v;
    }

  private:
    uint8_t const* p_;
    size_t n_;
    size_t i_ = 0;
};

}  // namespace verif
