// rapidcheck driver + replay + exhaustive modes for one harness.
//
//   <h>_pbt                      rapidcheck run (RC_PARAMS, VERIF_OUT)
//   <h>_pbt --replay f1 [f2..]   run saved byte strings, print decoded cases
//   <h>_pbt --exhaustive         run the harness' enumerated part
//
// exit status: 0 ok, 1 unlisted violation, 3 only listed (known) findings
#include <cstdio>
#include <cstdlib>
#include <cstring>
#include <fstream>
#include <iostream>
#include <iterator>
#include <rapidcheck.h>
#include <unistd.h>

#include "agg.hh"

#if defined(__has_feature)
#    if __has_feature(address_sanitizer) || __has_feature(thread_sanitizer)
#        define VERIF_HAVE_SAN 1
#    endif
#endif
#ifdef VERIF_HAVE_SAN
extern "C" void __sanitizer_set_death_callback(void (*)(void));
#endif

namespace
{
uint8_t const* g_cur = nullptr;
size_t g_cur_n = 0;
char g_crash_path[512] = {0};

void death_cb()
{
    if (!g_crash_path[0] || !g_cur)
        return;
    std::FILE* f = std::fopen(g_crash_path, "wb");
    if (f)
    {
        std::fwrite(g_cur, 1, g_cur_n, f);
        std::fclose(f);
    }
}

std::vector<uint8_t> read_file(char const* p)
{
    std::ifstream in(p, std::ios::binary);
    return std::vector<uint8_t>((std::istreambuf_iterator<char>(in)),
                                std::istreambuf_iterator<char>());
}
}  // namespace

int main(int argc, char** argv)
{
    using namespace verif;
    char const* out = std::getenv("VERIF_OUT");
    if (out)
        std::snprintf(g_crash_path, sizeof g_crash_path, "%s.crash", out);
#ifdef VERIF_HAVE_SAN
    __sanitizer_set_death_callback(death_cb);
#endif
    setup();

    if (argc >= 2 && !std::strcmp(argv[1], "--replay"))
    {
        int rc = 0;
        for (int i = 2; i < argc; ++i)
        {
            auto b = read_file(argv[i]);
            g_cur = b.data();
            g_cur_n = b.size();
            Choices c(b.data(), b.size());
            CaseLog log;
            log.want_desc = true;
            Verdict v = run_case(c, log);
            char const* vs[] = {"pass", "trivial", "rejected", "VIOLATED"};
            std::printf("replay %s: %s%s consumed=%zu\n  case: {%s}\n",
                        argv[i],
                        vs[int(v)],
                        log.nontrivial ? " (non-trivial)" : "",
                        c.consumed(),
                        log.desc.str().c_str());
            if (v == Verdict::violation)
            {
                std::printf("  oracle: %s\n", log.msg.c_str());
                if (!log.finding.empty())
                {
                    std::printf("  finding-key: %s\n", log.finding.c_str());
                    if (rc == 0)
                        rc = 3;
                }
                else
                    rc = 1;
            }
        }
        return rc;
    }

    if (argc >= 2 && !std::strcmp(argv[1], "--exhaustive"))
    {
        ExhaustiveResult r;
        bool have = run_exhaustive(r);
        std::ofstream o(out ? out : "/dev/stdout");
        o << "{\"property\": \"" << kPropertyId << "\", \"harness\": \""
          << kHarness << "\", \"exhaustive\": " << (have ? "true" : "false")
          << ", \"evaluations\": " << r.evaluations
          << ", \"nontrivial\": " << r.nontrivial << ", \"scope\": \""
          << json_escape(r.scope) << "\", \"violated\": "
          << (r.violated ? "true" : "false") << ", \"msg\": \""
          << json_escape(r.msg) << "\", \"finding\": \""
          << json_escape(r.finding) << "\", \"samples\": [";
        for (size_t i = 0; i < r.samples.size(); ++i)
            o << (i ? ", " : "") << '"' << json_escape(r.samples[i]) << '"';
        o << "], \"known\": {";
        for (size_t i = 0; i < r.known.size(); ++i)
            o << (i ? ", " : "") << '"' << json_escape(r.known[i].first)
              << "\": \"" << json_escape(r.known[i].second) << '"';
        o << "}}\n";
        return r.violated ? (r.finding.empty() ? 1 : 3) : 0;
    }

    Agg agg;
    size_t const nbytes = kMaxBytes;
    auto elem = rc::gen::resize(100, rc::gen::arbitrary<uint8_t>());
    auto gen = rc::gen::shrink(
        rc::gen::noShrink(
            rc::gen::container<std::vector<uint8_t>>(nbytes, elem)),
        [](std::vector<uint8_t> const& v) {
            // strip trailing zeros first, then chunks, then bytes toward 0
            std::vector<uint8_t> t = v;
            while (!t.empty() && t.back() == 0)
                t.pop_back();
            auto rest = rc::seq::concat(
                rc::shrink::removeChunks(v),
                rc::shrink::eachElement(
                    v, [](uint8_t b) { return rc::shrink::integral(b); }));
            if (t.size() < v.size())
                return rc::seq::concat(rc::seq::just(std::move(t)),
                                       std::move(rest));
            return rest;
        });

    bool ok = rc::check(kPropertyId, [&] {
        auto bytes = *gen;
        g_cur = bytes.data();
        g_cur_n = bytes.size();
        bool known = false;
        Verdict v = agg.run(bytes, &known);
        g_cur = nullptr;
        if (v == Verdict::violation && !known)
            RC_FAIL(agg.fail_msg);
    });

    long seed = 0;
    if (char const* p = std::getenv("RC_PARAMS"))
    {
        if (char const* s = std::strstr(p, "seed="))
            seed = std::atol(s + 5);
    }
    agg.write(out, seed);
    if (!ok && !agg.failed)
    {
        std::fprintf(stderr, "rapidcheck failed without a recorded case\n");
        return 2;
    }
    return ok ? 0 : 1;
}
