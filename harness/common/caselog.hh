// Per-case log and the interface every property harness implements.
#pragma once

#include <cstdint>
#include <cstring>
#include <map>
#include <sstream>
#include <string>
#include <vector>

#include "choices.hh"

namespace verif
{
enum class Verdict
{
    pass,  // property held on this case
    trivial,  // held, but the case does not count as non-trivial evidence
    rejected,  // the code under test cleanly rejected the generated input
    violation  // oracle says the property is violated
};

struct CaseLog
{
    // Set by the driver: build the human-readable description?
    bool want_desc = false;

    // Filled by the harness
    std::ostringstream desc;  // decoded case (JSON-ish), only if want_desc
    uint64_t hash = 1469598103934665603ull;  // hash of the decoded case
    std::vector<char const*> labels;  // class labels (static strings)
    std::vector<std::pair<char const*, long>> counters;
    bool nontrivial = false;
    std::string msg;  // oracle message for a violation
    std::string finding;  // key of a known finding this violation matches

    void mix(uint64_t v)
    {
        for (int i = 0; i < 8; ++i)
        {
            hash ^= (v >> (8 * i)) & 0xffu;
            hash *= 1099511628211ull;
        }
    }
    void mix(double d)
    {
        uint64_t v;
        std::memcpy(&v, &d, 8);
        mix(v);
    }
    void mix(int v) { mix(uint64_t(int64_t(v))); }
    void mix(long v) { mix(uint64_t(v)); }
    void mix(unsigned v) { mix(uint64_t(v)); }
    void label(char const* s) { labels.push_back(s); }
    void count(char const* s, long n = 1) { counters.emplace_back(s, n); }

    template<class T>
    void d(char const* name, T const& v)
    {
        if (want_desc)
            desc << (desc.tellp() > 0 ? ", " : "") << '"' << name
                 << "\": " << v;
    }
    void dv(char const* name, double const* v, int n)
    {
        if (!want_desc)
            return;
        desc << (desc.tellp() > 0 ? ", " : "") << '"' << name << "\": [";
        desc.precision(17);
        for (int i = 0; i < n; ++i)
            desc << (i ? ", " : "") << v[i];
        desc << "]";
    }
    void ds(char const* name, std::string const& v)
    {
        if (want_desc)
            desc << (desc.tellp() > 0 ? ", " : "") << '"' << name << "\": \""
                 << v << '"';
    }

    Verdict fail(std::string m, std::string key = {})
    {
        msg = std::move(m);
        finding = std::move(key);
        return Verdict::violation;
    }
};

// ---- implemented by each props/cXX_*.cc ---------------------------------
extern char const* const kPropertyId;
extern char const* const kHarness;  // sub-harness name, e.g. "algorithms"
extern size_t const kMaxBytes;  // bytes generated per case
extern char const* const kRule;  // generation + non-triviality rule (text)
void setup();  // one-time initialisation (may be empty)
Verdict run_case(Choices& c, CaseLog& log);

// Optional exhaustive / enumerated part.  Returns number of evaluations,
// fills `nontrivial`, and on failure sets msg (and returns).  Default: none.
struct ExhaustiveResult
{
    long evaluations = 0;
    long nontrivial = 0;
    bool violated = false;
    std::string msg;
    std::string finding;
    std::string scope;
    std::vector<std::string> samples;
    // listed known findings that were observed (key -> what failed)
    std::vector<std::pair<std::string, std::string>> known;
};
bool run_exhaustive(ExhaustiveResult& r);  // false if none is defined

}  // namespace verif
