"""Texts for MANIFEST.json (per claimed property)."""
HOOK_COMMITS = []
NOT_APPLICABLE = {}
NOTE = ("Trusted base: clang 14 + sanitizer runtimes, rapidcheck/libFuzzer, the harness' own reference "
        "implementations; host code paths only. Exploration never establishes absence.")
TEXT = {
    "C18": dict(
        level_text="Generated-input search: every sequence over {0..3} of length <= 8 exhaustively, plus random "
                   "sequences/ranges/extents/arguments and grids with queries aimed at each knot +-2 ulp, against "
                   "std:: algorithms and long-double arithmetic. Exploration is the honest level: the input space is unbounded.",
        design_ref="DESIGN.md §4 C18",
        level_note=NOTE,
        technique="property-based testing (rapidcheck) + exhaustive small-scope enumeration + libFuzzer, differential vs std:: / long double",
    ),
    "C03": dict(
        level_text="Generated geometries (bundled files, raw OrangeInput with every runtime surface type / daughters with rotations and "
                   "reflections / arrays / background volumes, construction-API models) x generated rays, point sets and navigation-operation "
                   "programs, checked in lock-step against an independent long-double point locator and ray marcher computed from the "
                   "OrangeInput alone. Exploration: the space of geometries and rays is unbounded.",
        design_ref="DESIGN.md §3.1, §3.2, §4 C03",
        level_note=NOTE,
        technique="property-based testing (rapidcheck) + libFuzzer; differential against an independent reference geometry oracle; stateful operation sequences",
    ),
    "C13": dict(
        level_text="discard/init/reseed on generated states and 64-bit counts against a GF(2) matrix reference (exploration) plus exhaustive "
                   "sub-claims: each of the 64 jump polynomials alone, order of the transition matrix = 2^160-1, float canonical over all 2^32 outputs.",
        design_ref="DESIGN.md §3.4, §4 C13",
        level_note=NOTE,
        technique="property-based testing vs independent GF(2) matrix model; exhaustive enumeration of the algebraic sub-claims; libFuzzer",
    ),
    "C15": dict(
        level_text="Per-sample support predicates, exact/bounded draw counts (incl. adversarial engines forcing extreme canonical values) and "
                   "goodness of fit (KS/DKW, pooled chi-square, moment bounds at alpha 1e-9 with re-test) for every listed distribution over "
                   "generated parameters. Exploration with stated statistical resolution.",
        design_ref="DESIGN.md §3.4, §4 C15",
        level_note=NOTE,
        technique="property-based testing with statistical oracles (KS / chi-square / Bernstein bounds) and adversarial RNG engines; libFuzzer",
    ),
    "C20": dict(
        level_text="Generated optical materials, steps and RNG streams; every generated Cerenkov/scintillation photon is checked against a "
                   "long-double per-photon validity predicate (energy range, unit/orthogonal vectors, position on chord, time window, cone angle), "
                   "offload thresholds and field equality. Exploration.",
        design_ref="DESIGN.md §4 C20",
        level_note=NOTE,
        technique="property-based testing (rapidcheck) + libFuzzer with per-photon validity oracle",
    ),
    "C14": dict(
        level_text="Generated log grids/tables (direct and through the production ValueGrid builders), energies aimed at every knot +-2 ulp and both "
                   "ends, steps and loss limits, MSC inputs; checked against a long-double piecewise reference (knots, betweenness, continuity, "
                   "extrapolation, range/inverse-range round trips, loss relations, path-conversion inequalities) on a real PhysicsParams/"
                   "PhysicsTrackView. Tables are placed at the end of their heap block so ASan sees any over-read. Exploration.",
        design_ref="DESIGN.md §4 C14",
        level_note=NOTE,
        technique="property-based testing vs long-double reference model + ASan end-of-block tables; libFuzzer",
    ),
    "C10": dict(
        level_text="Generated CSG DAGs (duplicates, complements, shared sub-DAGs, constants, aliases, chains up to the LogicStack capacity) with "
                   "EXHAUSTIVE truth tables (all 2^n sense assignments, n <= 12) compared before/after insert, exchange, simplify, "
                   "replace_and_simplify, De Morgan, postfix (runtime LogicEvaluator), infix (runtime InfixEvaluator) and the internal-surface flag; "
                   "exhaustive per tree, exploration over trees.",
        design_ref="DESIGN.md §4 C10",
        level_note=NOTE,
        technique="property-based testing with exhaustive truth-table oracle per generated tree; libFuzzer",
    ),
    "C04": dict(
        level_text="For 21 model variants: generated (material/element, cut, incident energy log-uniform over the applicability interval incl. end "
                   "points +-ulps, direction incl. axis-aligned / near-z, RNG plan incl. forced extreme draws, free stack slots 0..ample) checked "
                   "against a long-double ledger (energy with 2mc^2 per e+, momentum for closed final states), validity predicate, model-specific "
                   "kinematic relations, draw bounds and the all-or-nothing allocation protocol. Exploration.",
        design_ref="DESIGN.md §4 C04",
        level_note=NOTE,
        technique="property-based testing (rapidcheck) + libFuzzer; conservation-law / validity oracle with counting and adversarial RNG engines",
    ),
    "C09": dict(
        level_text="Random construction-API models (all primitives, solids, poly-solids, booleans, transforms incl. reflections, nested protos, planted "
                   "near-coincident faces) built through InputBuilder and OrangeParams; ~130 probe points per model (uniform, +-{5,30,1000} tol along "
                   "face normals, inside daughters) compared by label with an analytic long-double membership oracle written from the documented shape "
                   "definitions. Exploration.",
        design_ref="DESIGN.md §3.1, §4 C09",
        level_note=NOTE,
        technique="property-based testing vs analytic membership oracle (reference model of the documented solids); libFuzzer",
    ),
    "C12": dict(
        level_text="All 18 surface classes with generated parameters, positions (far/near/on-surface) and directions (generic/tangent/axis-parallel) "
                   "against long-double surface functions, cancellation-free roots and gradients; translations/rotations/reflections/signed "
                   "permutations/simplification checked by sense preservation and round trips. Exploration.",
        design_ref="DESIGN.md §4 C12",
        level_note=NOTE,
        technique="property-based testing vs long-double reference (roots, sense, gradient) and metamorphic transform relations; libFuzzer",
    ),
    "C01": dict(
        level_text="Generated physics problems (geometry x materials x synthetic tables x cuts x along-step variant x slots/track order) transported "
                   "with the real Stepper; whole-event and per-track ledgers of E* = T + 2mc^2[antiparticle] computed from the public step stream "
                   "must close to 1e-11. Exploration over problems, events and RNG streams.",
        design_ref="DESIGN.md §3.3, §4 C01",
        level_note=NOTE,
        technique="property-based testing of whole-event invariants (energy ledger) on generated problems; libFuzzer",
    ),
    "C05": dict(
        level_text="Same generated problems as C01; per-track step histories plus read-only harness snapshots (pre-step physics limit, statuses) are "
                   "checked for bitwise join-up, monotone time/energy, dt = len/v, positive bounded step lengths, displacement bound, "
                   "volume = independent point location, boundary-only volume changes and forward status transitions. Exploration.",
        design_ref="DESIGN.md §4 C05",
        level_note=NOTE,
        technique="property-based testing: invariants over recorded step histories with an independent geometry oracle; libFuzzer",
    ),
    "C02": dict(
        level_text="Generated problems transported with the real Stepper; a lock-step population model built from read-only slot snapshots at "
                   "user_start/user_post of every call checks uniqueness of (event, track id) among slots, no id re-use, parent-before-child, "
                   "exactly-once ending, StepperResult counters vs the model, active(k) = alive(k-1) + min(vacancies, queued), termination and "
                   "created == ended. Exploration.",
        design_ref="DESIGN.md §4 C02",
        level_note=NOTE,
        technique="model-based property testing (population model in lock step with the stepping loop) on generated histories; libFuzzer",
    ),
    "C06": dict(
        level_text="Differential/metamorphic: the target event on a fresh state with TrackOrder::none vs the same event (same reseed id, up to 2^40) "
                   "after a generated prefix history (completed events, aborted event + reset_state, warm_up) under a re-index policy / action timing / "
                   "status checker: step streams and StepperResult sequences must be bit-identical. Exploration.",
        design_ref="DESIGN.md §4 C06",
        level_note=NOTE,
        technique="differential property testing (bitwise stream equality across generated histories and options); libFuzzer",
    ),
    "C16": dict(
        level_text="Fault enumeration over storage capacities on generated problems: secondary stack capacity 1..8 (ledger of C01 must stay exact, "
                   "failed interactions emit nothing and are retried) and initializer capacity 1..16 (clean 'insufficient capacity' error, then "
                   "reset_state and a bit-identical follow-up event).",
        design_ref="DESIGN.md §4 C16",
        level_note=NOTE,
        technique="fault injection by capacity starvation + energy-ledger / differential oracles on generated problems; libFuzzer",
    ),
    "C17": dict(
        level_text="Generated callback sets (selections, detector maps, non-zero filter), SimpleCalo, ActionDiagnostic and StepDiagnostic on generated "
                   "problems, compared with the unfiltered truth stream of a twin world: exactly-once delivery under the combined filters, bitwise "
                   "field equality, empty unselected collections, tallies = sums over the truth, invalid mixtures rejected. Exploration.",
        design_ref="DESIGN.md §4 C17",
        level_note=NOTE,
        technique="differential property testing against an unfiltered reference stream; libFuzzer",
    ),
    "C08": dict(
        level_text="Generated particle/field/geometry/start/step/driver-option/integrator combinations (incl. on-boundary, tangent and grazing starts, "
                   "subdivided steps) checked for momentum conservation, distance bounds, the result/geometry trichotomy, agreement with the analytic "
                   "helix within a stated error model, no boundary jumped along the helix (independent geometry oracle) and subdivision independence. Exploration.",
        design_ref="DESIGN.md §4 C08",
        level_note=NOTE,
        technique="property-based testing vs analytic helix + independent geometry oracle; libFuzzer",
    ),
    "C11": dict(
        level_text="Generated interior points (all nesting levels, rotated daughters, array cells) in generated/bundled geometries: safety >= 0, "
                   "32 rays (incl. rays aimed at the oracle's nearest point of every surface on the path) travel at least the safety by the navigator "
                   "and by an exact long-double search, and 32 points in the safety ball are located in the same volume path. Exploration.",
        design_ref="DESIGN.md §4 C11",
        level_note=NOTE,
        technique="property-based testing with an independent geometry oracle (directed + random probes); libFuzzer",
    ),
    "C19": dict(
        level_text="Generated raw inputs (mutated: tolerances, labels, every surface type incl. involutes, all transform kinds, arrays), construction-API "
                   "models and all 28 bundled files: field-by-field bitwise comparison after write->read (object and text paths), idempotence of the "
                   "JSON, and bit-identical ray traces of OrangeParams built from both. Exploration.",
        design_ref="DESIGN.md §4 C19",
        level_note=NOTE,
        technique="round-trip property testing (write/read, idempotence, differential navigation); libFuzzer",
    ),
    "C07": dict(
        level_text="N free-running threads (2-8 streams, generated event->stream assignment and start skews) share one CoreParams with a step "
                   "collector, ActionDiagnostic and StepDiagnostic; every event's step stream must be bit-identical to the serial single-stream run "
                   "and diagnostic totals equal the serial sums (asan flavour); the same cases under ThreadSanitizer must produce no report. "
                   "Exploration of schedules that happen to occur; honest limit: schedule-dependent bugs invisible to TSan can be missed.",
        design_ref="DESIGN.md §4 C07",
        level_note=NOTE,
        technique="differential property testing (concurrent vs serial) + ThreadSanitizer on generated stream assignments",
    ),
}
