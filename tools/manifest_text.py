"""Texts for MANIFEST.json (per claimed property)."""
HOOK_COMMITS = []
NOT_APPLICABLE = {}
NOTE = ("Trusted base: clang 14 + sanitizer runtimes, rapidcheck/libFuzzer, the harness' own reference "
        "implementations; host code paths only. Exploration never establishes absence.")
TEXT = {
    "C18": dict(
        level_text="Generated-input search: every sequence over {0..3} of length <= 8 exhaustively, plus random "
                   "sequences/ranges/extents/arguments and grids with queries aimed at each knot +-2 ulp, against "
                   "std:: algorithms and long-double arithmetic. Exploration is the honest level: the input space is unbounded.",
        design_ref="DESIGN.md §4 C18",
        level_note=NOTE,
        technique="property-based testing (rapidcheck) + exhaustive small-scope enumeration + libFuzzer, differential vs std:: / long double",
    ),
}
