#!/bin/bash
# Round 3 intake of one seeded change: copy the agent's deliverables into
# seeded/<ID>/<V>, then (in parallel) confirm it in the agent's scratch copy
# and run the property's registered quick check against a scratch worktree
# with the patch applied.   tools/seeded_round3.sh <ID> <V>
set -u
ID=$1; V=$2
VERIF=$(cd "$(dirname "$0")/.." && pwd)
D=$VERIF/seeded/$ID/$V
mkdir -p $D
cp -r /tmp/seed_out/$ID/* $D/
W=/tmp/wt_seedrun_$ID; BR=/tmp/verif_seed_build_$ID
[ -d $W ] || git -C /repo worktree add -f $W HEAD -q
( $VERIF/tools/verify_seeded_copy.sh $ID $V /tmp/rc_$ID > /tmp/r3_verify_$ID.log 2>&1 ) &
( $VERIF/tools/run_seeded_alt.sh $ID $D $W $BR > /tmp/r3_check_$ID.log 2>&1 ) &
wait
cat /tmp/r3_verify_$ID.log /tmp/r3_check_$ID.log
