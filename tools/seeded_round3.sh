#!/bin/bash
# Round 3 intake of one seeded change: copy the agent's deliverables into
# seeded/<ID>/<V>, then (in parallel) confirm it in the agent's scratch copy
# and run the property's registered quick check against a scratch worktree
# with the patch applied.  The check's build root is a copy of a pre-built
# base (/tmp/br_r3_base, libraries of the unpatched tree) and both worktree
# and build root are bind-mounted at fixed paths in a private mount namespace,
# so that the copied cmake trees stay valid and several variants can run side
# by side.   tools/seeded_round3.sh <ID> <V>
set -u
ID=$1; V=$2
VERIF=$(cd "$(dirname "$0")/.." && pwd)
D=$VERIF/seeded/$ID/$V
mkdir -p $D
cp -r /tmp/seed_out/$ID/* $D/
W0=/tmp/wt_seedrun_C19; BR0=/tmp/verif_seed_build_C19
W=/tmp/wt_r3_$ID; BR=/tmp/br_r3_$ID
[ -d $W ] || git -C /repo worktree add -f $W HEAD -q
[ -d $BR ] || cp -a /tmp/br_r3_base $BR
mkdir -p $W0 $BR0
( $VERIF/tools/verify_seeded_copy.sh $ID $V /tmp/rc_$ID > /tmp/r3_verify_$ID.log 2>&1 ) &
( unshare -m sh -c "mount --bind $W $W0 && mount --bind $BR $BR0 && exec $VERIF/tools/run_seeded_alt.sh $ID $D $W0 $BR0" > /tmp/r3_check_$ID.log 2>&1 ) &
wait
cat /tmp/r3_verify_$ID.log /tmp/r3_check_$ID.log
