#!/bin/bash
# Build (or bring up to date) one flavour of the celeritas libraries from
# /repo's *current working tree*, then the requested harness targets.
#
#   tools/build.sh <flavour> [harness-target ...]
#
# flavours: asan (clang, ASan+UBSan, fuzzer-no-link coverage), tsan (clang,
# ThreadSanitizer).  Everything lives under /verif/_build/<flavour>.
set -euo pipefail
FLAVOUR=${1:?flavour}
shift || true
VERIF=$(cd "$(dirname "$0")/.." && pwd)
REPO=${VERIF_REPO:-/repo}
BUILD_ROOT=${VERIF_BUILD_ROOT:-$VERIF/_build}
B=$BUILD_ROOT/$FLAVOUR
mkdir -p "$B"
export CCACHE_DIR=$VERIF/_build/ccache
mkdir -p "$CCACHE_DIR"
export CCACHE_BASEDIR=/
export CCACHE_NOHASHDIR=1
export CCACHE_MAXSIZE=8G

case $FLAVOUR in
  asan)
    CXXFLAGS_F="-O1 -g1 -fsanitize=fuzzer-no-link,address,undefined -fno-sanitize-recover=undefined -fno-omit-frame-pointer -DCELERITAS_VERIF_HOOKS=1"
    LDFLAGS_F="-fsanitize=address,undefined"
    ;;
  tsan)
    CXXFLAGS_F="-O1 -g1 -fsanitize=thread -fno-omit-frame-pointer -DCELERITAS_VERIF_HOOKS=1"
    LDFLAGS_F="-fsanitize=thread"
    ;;
  dbg)
    # development aid only (not used by registered checks): CELERITAS_DEBUG=ON
    CXXFLAGS_F="-O1 -g -DCELERITAS_VERIF_HOOKS=1"
    LDFLAGS_F=""
    DEBUG_OPT=ON
    ;;
  *) echo "unknown flavour $FLAVOUR" >&2; exit 2;;
esac

exec 9>"$B/.lock"
flock 9

if [ ! -f "$B/repo/build.ninja" ]; then
  cmake -G Ninja -S "$REPO" -B "$B/repo" \
    -DCMAKE_BUILD_TYPE=RelWithDebInfo \
    -DCMAKE_CXX_COMPILER=clang++ -DCMAKE_C_COMPILER=clang \
    -DCMAKE_CXX_COMPILER_LAUNCHER=ccache \
    -DCMAKE_CXX_FLAGS="$CXXFLAGS_F" \
    -DCMAKE_CXX_FLAGS_RELWITHDEBINFO="" \
    -DCMAKE_SHARED_LINKER_FLAGS="$LDFLAGS_F" \
    -DCMAKE_EXE_LINKER_FLAGS="$LDFLAGS_F" \
    -DBUILD_SHARED_LIBS=ON \
    -DCELERITAS_BUILD_TESTS=OFF -DCELERITAS_BUILD_DOCS=OFF \
    -DCELERITAS_BUILD_DEMOS=OFF \
    -DCELERITAS_USE_Python=OFF -DCELERITAS_USE_MPI=OFF \
    -DCELERITAS_USE_OpenMP=OFF -DCELERITAS_USE_PNG=OFF \
    -DCELERITAS_USE_Geant4=OFF -DCELERITAS_USE_ROOT=OFF \
    -DCELERITAS_USE_VecGeom=OFF -DCELERITAS_USE_HepMC3=OFF \
    -DCELERITAS_USE_CUDA=OFF -DCELERITAS_USE_HIP=OFF \
    -DCELERITAS_DEBUG=${DEBUG_OPT:-OFF} > "$B/cmake-repo.log" 2>&1 || { cat "$B/cmake-repo.log" >&2; exit 2; }
fi
ninja -C "$B/repo" corecel geocel orange celeritas > "$B/ninja-repo.log" 2>&1 \
  || { tail -50 "$B/ninja-repo.log" >&2; exit 2; }

if [ $# -gt 0 ]; then
  if [ ! -f "$B/harness/build.ninja" ]; then
    cmake -G Ninja -S "$VERIF/harness" -B "$B/harness" \
      -DCMAKE_CXX_COMPILER=clang++ \
      -DCMAKE_CXX_COMPILER_LAUNCHER=ccache \
      -DVERIF_FLAVOUR=$FLAVOUR -DCELER_BUILD="$B/repo" -DCELER_SRC="$REPO" \
      > "$B/cmake-harness.log" 2>&1 || { cat "$B/cmake-harness.log" >&2; exit 2; }
  fi
  ninja -C "$B/harness" "$@" > "$B/ninja-harness.log" 2>&1 \
    || { tail -80 "$B/ninja-harness.log" >&2; exit 2; }
fi
