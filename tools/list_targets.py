#!/usr/bin/env python3
"""Print the harness targets a flavour needs (for setup)."""
import os, sys
sys.path.insert(0, os.path.dirname(os.path.abspath(__file__)))
from propconf import PROPS
fl = sys.argv[1]
t = []
for pid, c in PROPS.items():
    if c["flavour"] == fl:
        for h in c["harnesses"]:
            t.append(h + "_pbt")
        if fl == "asan" and c["thorough"].get("fuzz_s"):
            for h in c.get("fuzz", c["harnesses"]):
                t.append(h + "_fuzz")
    for e in c.get("extra_builds", []):
        if e["flavour"] == fl:
            t += e["targets"]
print(" ".join(sorted(set(t))))
