#!/bin/bash
# Run the registered quick check of a property against a seeded breaking change.
#   tools/run_seeded.sh <ID> <variant-dir>      e.g. tools/run_seeded.sh C03 seeded/C03/a
# Applies <variant-dir>/patch.diff to /repo, runs ./check <ID> --tier quick,
# always restores /repo, and writes <variant-dir>/check_result.json.
set -u
ID=$1; D=$(cd "$2" && pwd)
VERIF=$(cd "$(dirname "$0")/.." && pwd)
cd /repo || exit 2
if [ -n "$(git status --porcelain -- src app | head -1)" ]; then echo "/repo not clean" >&2; exit 2; fi
git apply "$D/patch.diff" || { echo "patch does not apply" >&2; exit 2; }
trap 'git -C /repo checkout -- . ' EXIT
cd "$VERIF"
start=$(date +%s)
out=$(./check "$ID" --tier quick 2>&1); rc=$?
end=$(date +%s)
viol=$(echo "$out" | grep -c "^VIOLATION")
first=$(echo "$out" | grep -m1 "oracle:" | cut -c1-400 | sed 's/"/\\"/g')
python3 - "$D" "$ID" "$rc" "$viol" "$((end-start))" "$first" <<'PY'
import json,sys
d,idp,rc,viol,wall,first=sys.argv[1:7]
json.dump({"property":idp,"check":"./check %s --tier quick"%idp,"exit":int(rc),"violations_reported":int(viol),"detected":int(rc)==1 and int(viol)>0,"wall_s":int(wall),"first_oracle_message":first}, open(d+"/check_result.json","w"), indent=1)
PY
echo "$ID $D exit=$rc violations=$viol wall=$((end-start))s"
git -C /repo checkout -- .
trap - EXIT
# rebuild the clean tree so later checks start from an up-to-date build
"$VERIF/tools/build.sh" asan >/dev/null 2>&1
