#!/usr/bin/env python3
"""Regenerate MANIFEST.json from tools/propconf.py + tools/manifest_text.py."""
import json, os, sys
here = os.path.dirname(os.path.abspath(__file__))
sys.path.insert(0, here)
from propconf import PROPS
from manifest_text import TEXT, NOT_APPLICABLE, HOOK_COMMITS
ids = [json.loads(l)["id"] for l in open(os.path.join(here, "..", "properties.jsonl"))]
checks = []
for pid in ids:
    if pid not in PROPS or pid not in TEXT:
        continue
    t = TEXT[pid]
    checks.append({
        "property_id": pid,
        "quick_cmd": "./check %s --tier quick" % pid,
        "thorough_cmd": "./check %s --tier thorough" % pid,
        "evidence_file": "/verif/evidence/%s.json" % pid,
        "replay_cmd_template": "./check %s --replay {path}" % pid,
        "engine": "pbt+fuzz",
        "level_claimed": {"category": PROPS[pid]["level"], "text": t["level_text"], "design_ref": t["design_ref"]},
        "level_note": t["level_note"],
        "technique": t["technique"],
    })
na = [{"property_id": p, "reason": NOT_APPLICABLE.get(p, "check not built yet in this session (work in progress; see DESIGN.md)")}
      for p in ids if p not in [c["property_id"] for c in checks]]
m = {
    "version": 1,
    "setup_cmd": "tools/setup.sh",
    "hooks": {
        "guard": "CELERITAS_VERIF_HOOKS",
        "enable": "tools/build.sh passes -DCELERITAS_VERIF_HOOKS=1 in CMAKE_CXX_FLAGS of the asan/tsan flavour builds of /repo (no hook is currently needed: all observation is through public API)",
        "baseline_off_cmd": "cmake --build /repo/_build && ctest --test-dir /repo/_build -j8 --timeout 900",
        "source_commits": HOOK_COMMITS,
        "add_only": True,
    },
    "engines": [
        {"name": "pbt+fuzz", "path": "/verif/harness",
         "serves_properties": [c["property_id"] for c in checks],
         "kind_free_text": "one harness function per property over a structure-aware choice sequence (bytes); drivers: rapidcheck (shrinking on the choice sequence), libFuzzer (coverage-guided, thorough tier), plain replay; clang ASan+UBSan (TSan for C07) builds of /repo's working tree"},
    ],
    "checks": checks,
    "notes": "See DESIGN.md. known_findings.json lists genuine defects (open / fixed).",
    "not_applicable": na,
}
json.dump(m, open(os.path.join(here, "..", "MANIFEST.json"), "w"), indent=1)
print("checks:", [c["property_id"] for c in checks], "not claimed:", [n["property_id"] for n in na])
