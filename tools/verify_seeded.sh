#!/bin/bash
# Independent confirmation of a seeded change in a scratch worktree:
#  demo passes at HEAD, patch applies and builds, full ctest still passes,
#  demo fails with the patch.   tools/verify_seeded.sh <ID> <variant>
set -u
ID=$1; V=$2
VERIF=$(cd "$(dirname "$0")/.." && pwd)
D=$VERIF/seeded/$ID/$V
W=/tmp/wt_verify
export CCACHE_DIR=/tmp/ccache_shared CCACHE_BASEDIR=$W CCACHE_NOHASHDIR=1
if [ ! -f $W/_build/build.ninja ]; then
  cmake -G Ninja -S $W -B $W/_build -DCMAKE_BUILD_TYPE=RelWithDebInfo -DCMAKE_CXX_COMPILER_LAUNCHER=ccache -DCMAKE_CXX_FLAGS="-Wno-error" -DCELERITAS_BUILD_TESTS=ON -DCELERITAS_USE_MPI=OFF -DCELERITAS_USE_OpenMP=OFF -DCELERITAS_USE_Python=OFF -DCELERITAS_USE_PNG=OFF -DCELERITAS_BUILD_DOCS=OFF -DCELERITAS_DEBUG=OFF > /tmp/wt_verify_cmake.log 2>&1 || exit 2
fi
mkdir -p /tmp/verify_work/$ID/$V
rundemo() {
  if [ -f "$D/demo.sh" ]; then
    # uniform convention: demo.sh <worktree>; run a scratch copy
    rm -rf /tmp/verify_work/$ID/$V/demo && mkdir -p /tmp/verify_work/$ID/$V/demo
    cp -r "$D"/* /tmp/verify_work/$ID/$V/demo/
    sh /tmp/verify_work/$ID/$V/demo/demo.sh $W > /tmp/verify_work/$ID/$V/demo_$1.log 2>&1
    echo $?
    return
  fi
  # rewrite the agent's paths to this worktree / the committed copy
  sed -e "s#/tmp/wt_$ID#$W#g" -e "s#/tmp/seeded_$ID/$V#/tmp/verify_work/$ID/$V#g" "$D/demo_cmd.txt" > /tmp/verify_work/$ID/$V/demo_cmd.sh
  cp -r "$D"/* /tmp/verify_work/$ID/$V/ 2>/dev/null
  for f in /tmp/verify_work/$ID/$V/*.sh; do sed -i -e "s#/tmp/wt_$ID#$W#g" -e "s#/tmp/seeded_$ID/$V#/tmp/verify_work/$ID/$V#g" "$f"; done
  (cd /tmp/verify_work/$ID/$V && bash demo_cmd.sh) > /tmp/verify_work/$ID/$V/demo_$1.log 2>&1
  echo $?
}
git -C $W checkout -q -- . ; git -C $W clean -fdq -e _build
ninja -C $W/_build -k 0 > /tmp/verify_work/$ID/$V/build_head.log 2>&1
demo_head=$(rundemo head)
git -C $W apply "$D/patch.diff" || { echo "$ID/$V patch does not apply"; exit 2; }
ninja -C $W/_build -k 0 > /tmp/verify_work/$ID/$V/build_patch.log 2>&1
newfail=$(grep -c "^FAILED" /tmp/verify_work/$ID/$V/build_patch.log)
(ctest --test-dir $W/_build -j8 --timeout 900 2>&1 | tail -15) > /tmp/verify_work/$ID/$V/ctest_patch_first.log
# the machine is shared: re-run whatever failed (timeouts under load) alone
(nice -n -10 ctest --test-dir $W/_build --rerun-failed -j2 --timeout 3000 2>&1 | tail -15) > /tmp/verify_work/$ID/$V/ctest_patch.log
# app/celer-geo:cpu carries its own 20 s TIMEOUT property and needs ~6 s on a
# quiet machine: retry it alone at high priority before calling it a failure
for try in 1 2 3 4; do
  grep -q "celer-geo:cpu (Timeout)" /tmp/verify_work/$ID/$V/ctest_patch.log || break
  (nice -n -15 ctest --test-dir $W/_build --rerun-failed -j1 --timeout 3000 2>&1 | tail -15) > /tmp/verify_work/$ID/$V/ctest_patch.log
done
failed=$(grep -E "^\s+[0-9]+ - " /tmp/verify_work/$ID/$V/ctest_patch.log | grep -v "Disabled\|GeantVolumeMapper\|MpiCommunicator" | tr -s ' ' | cut -c1-80 | tr '\n' ';')
demo_patch=$(rundemo patch)
git -C $W checkout -q -- .
python3 - "$D" "$demo_head" "$demo_patch" "$failed" "$newfail" <<'PY'
import json,sys
d,h,p,failed,nf=sys.argv[1:6]
ok = (h=="0" and p!="0" and failed.strip()=="")
json.dump({"demo_exit_at_head":int(h),"demo_exit_with_patch":int(p),"ctest_failures_with_patch":failed,"build_failed_targets_with_patch":int(nf),"confirmed":ok,"verified_in":"/tmp/wt_verify (scratch worktree of /repo HEAD incl. fix commits)"}, open(d+"/verify.json","w"), indent=1)
print(d, "confirmed" if ok else "NOT-CONFIRMED", "demo head/patch", h, p, "ctest fails:", failed)
PY
