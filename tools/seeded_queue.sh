#!/bin/bash
# Process seeded variants: verify (scratch worktree) then run the property's
# quick check against the patch (second scratch worktree / build root).
#   tools/seeded_queue.sh <tag> ID/variant [ID/variant ...]
TAG=$1; shift
VERIF=$(cd "$(dirname "$0")/.." && pwd)
W=/tmp/wt_seedrun_$TAG; BR=/tmp/verif_seed_build_$TAG
[ -d $W ] || git -C /repo worktree add -f $W HEAD -q
for item in "$@"; do
  ID=${item%/*}; V=${item#*/}
  [ -f $VERIF/seeded/$ID/$V/check_result.json ] || $VERIF/tools/run_seeded_alt.sh $ID $VERIF/seeded/$ID/$V $W $BR
done
