#!/bin/bash
# One-time (idempotent) build of everything the registered checks need.
set -euo pipefail
VERIF=$(cd "$(dirname "$0")/.." && pwd)
cd "$VERIF"
python3 tools/list_targets.py asan | xargs tools/build.sh asan
T=$(python3 tools/list_targets.py tsan)
if [ -n "$T" ]; then tools/build.sh tsan $T; fi
echo "setup ok"
