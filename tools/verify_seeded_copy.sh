#!/bin/bash
# Independent confirmation of a seeded change in a scratch COPY of /repo
# (cp -a, including its up-to-date _build), mounted at /repo inside a private
# mount namespace so that the copied build tree stays valid (round 3; no
# ccache needed):
#   demo passes at HEAD, patch applies and builds, full ctest still passes,
#   demo fails with the patch.
#   tools/verify_seeded_copy.sh <ID> <variant> <copy-dir>
set -u
ID=$1; V=$2; C=$3
VERIF=$(cd "$(dirname "$0")/.." && pwd)
D=$VERIF/seeded/$ID/$V
WK=/tmp/verify_work/$ID/$V
mkdir -p $WK
inrepo() { unshare -m sh -c 'mount --bind "$0" /repo && cd /repo && exec "$@"' "$C" "$@"; }
rundemo() {
  rm -rf $WK/demo && mkdir -p $WK/demo && cp -r "$D"/* $WK/demo/
  inrepo sh $WK/demo/demo.sh /repo > $WK/demo_$1.log 2>&1
  echo $?
}
git -C $C checkout -q -- . ; git -C $C clean -fdq -e _build
inrepo ninja -C _build -k 0 > $WK/build_head.log 2>&1
demo_head=$(rundemo head)
git -C $C apply "$D/patch.diff" || { echo "$ID/$V patch does not apply"; exit 2; }
inrepo ninja -C _build -k 0 > $WK/build_patch.log 2>&1
newfail=$(grep "^FAILED" $WK/build_patch.log | grep -vc GeantVolumeMapper)
(inrepo ctest --test-dir _build -j${VERIFY_J:-8} --timeout 900 2>&1 | tail -15) > $WK/ctest_patch_first.log
(inrepo nice -n -10 ctest --test-dir _build --rerun-failed -j2 --timeout 3000 2>&1 | tail -15) > $WK/ctest_patch.log
for try in 1 2 3; do
  grep -q "celer-geo:cpu (Timeout)" $WK/ctest_patch.log || break
  (inrepo nice -n -15 ctest --test-dir _build --rerun-failed -j1 --timeout 3000 2>&1 | tail -15) > $WK/ctest_patch.log
done
failed=$(grep -E "^\s+[0-9]+ - " $WK/ctest_patch.log | grep -v "Disabled\|GeantVolumeMapper\|MpiCommunicator" | tr -s ' ' | cut -c1-80 | tr '\n' ';')
demo_patch=$(rundemo patch)
git -C $C checkout -q -- .
python3 - "$D" "$demo_head" "$demo_patch" "$failed" "$newfail" <<'PY'
import json,sys
d,h,p,failed,nf=sys.argv[1:6]
ok = (h=="0" and p!="0" and failed.strip()=="" and nf=="0")
json.dump({"demo_exit_at_head":int(h),"demo_exit_with_patch":int(p),"ctest_failures_with_patch":failed,"build_failed_targets_with_patch":int(nf),"confirmed":ok,"verified_in":"scratch copy of /repo HEAD (incl. fix commits) with its build tree, mounted at /repo in a private mount namespace; full ctest of the repository's own build configuration (MPI+OpenMP)"}, open(d+"/verify.json","w"), indent=1)
print(d, "confirmed" if ok else "NOT-CONFIRMED", "demo head/patch", h, p, "ctest fails:", failed, "build fails:", nf)
PY
