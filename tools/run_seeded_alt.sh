#!/bin/bash
# Like run_seeded.sh but against a scratch worktree (so that /repo stays free):
#   tools/run_seeded_alt.sh <ID> <variant-dir> <worktree> <build-root>
set -u
ID=$1; D=$(cd "$2" && pwd); W=$3; BR=$4
VERIF=$(cd "$(dirname "$0")/.." && pwd)
git -C "$W" checkout -q -- . && git -C "$W" apply "$D/patch.diff" || { echo "patch does not apply" >&2; exit 2; }
cd "$VERIF"
start=$(date +%s)
out=$(VERIF_REPO=$W VERIF_BUILD_ROOT=$BR VERIF_EVIDENCE_DIR=$BR/evidence ./check "$ID" --tier quick 2>&1); rc=$?
end=$(date +%s)
git -C "$W" checkout -q -- .
echo "$out" | grep -v "^\[" | cut -c1-600 | head -200 > "$D/check_output.txt"
viol=$(echo "$out" | grep -c "^VIOLATION")
first=$(echo "$out" | grep -m1 "oracle:" | cut -c1-400)
python3 - "$D" "$ID" "$rc" "$viol" "$((end-start))" "$first" <<'PY'
import json,sys
d,idp,rc,viol,wall,first=sys.argv[1:7]
json.dump({"property":idp,"check":"./check %s --tier quick (run against a scratch worktree with the patch applied)"%idp,"exit":int(rc),"violations_reported":int(viol),"detected":int(rc)==1 and int(viol)>0,"wall_s":int(wall),"first_oracle_message":first}, open(d+"/check_result.json","w"), indent=1)
PY
echo "$ID $D exit=$rc violations=$viol wall=$((end-start))s :: $first" | cut -c1-300
