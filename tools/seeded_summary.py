#!/usr/bin/env python3
"""Write seeded/SUMMARY.md from the per-variant meta/verify/check_result files."""
import json, os, glob
root = os.path.join(os.path.dirname(os.path.abspath(__file__)), "..", "seeded")
rows = []
for d in sorted(glob.glob(os.path.join(root, "C*", "*"))):
    if not os.path.isdir(d):
        continue
    def load(n):
        p = os.path.join(d, n)
        try:
            return json.load(open(p))
        except Exception:
            return None
    meta, ver, res = load("meta.json"), load("verify.json"), load("check_result.json")
    note = load("strengthening.json")
    if note and meta is not None:
        meta = dict(meta); meta["_note"] = note.get("note", "")
    pid = os.path.basename(os.path.dirname(d)); var = os.path.basename(d)
    rows.append((pid, var, meta or {}, ver, res))
out = ["# Seeded breaking changes and what the registered checks do with them", "",
       "Each change was written by a sub-agent that saw only the property text and a scratch worktree; "
       "`verify.json` = my own confirmation in a scratch worktree (demo passes at HEAD, full ctest passes with the patch, demo fails with the patch); "
       "`check_result.json` = the property's registered quick command run against the patched tree.", "",
       "| variant | file | change | confirmed by me | registered quick check | first oracle message |", "|---|---|---|---|---|---|"]
notes = []
for pid, var, meta, ver, res in rows:
    files = ", ".join(os.path.basename(f) for f in (meta.get("files_touched") or ([meta["file"]] if meta.get("file") else [])))[:80]
    summ = (meta.get("summary", "") or meta.get("change", "") or "")[:140].replace("|", "/").replace("\n", " ")
    needs = (meta.get("needs_to_manifest", "") or "")[:160].replace("|", "/").replace("\n", " ")
    conf = "-" if ver is None else ("yes" if ver.get("confirmed") else "no: demo %s/%s ctest %s" % (ver.get("demo_exit_at_head"), ver.get("demo_exit_with_patch"), ver.get("ctest_failures_with_patch")))
    det = "-" if res is None else ("DETECTED (%ds)" % res.get("wall_s", 0) if res.get("detected") else "missed (exit %s)" % res.get("exit"))
    msg = "" if res is None else (res.get("first_oracle_message", "") or "")[:160].replace("|", "/")
    out.append("| %s/%s | %s | %s | %s | %s | %s |" % (pid, var, files, summ, conf, det, msg[:120]))
    if meta.get("_note"):
        notes.append("* **%s/%s** - %s" % (pid, var, meta["_note"]))
nd = sum(1 for r in rows if r[4] and r[4].get("detected")); nc = sum(1 for r in rows if r[3] and r[3].get("confirmed"))
out += ["", "%d variants, %d confirmed, %d detected by the registered quick check of their property." % (len(rows), nc, nd), "",
        "## Checks strengthened because a seeded change was missed at first", ""] + notes
open(os.path.join(root, "SUMMARY.md"), "w").write("\n".join(out) + "\n")
print("\n".join(out[-len(rows):]))
