"""Per-property configuration of the checks (harnesses, budgets, levels)."""

COMMON_ASSUME = [
    "host (CPU) code paths only; CUDA/HIP kernels are not executed",
    "clang 14 -O1 with ASan+UBSan, CELERITAS_DEBUG=OFF (the production assertion level); "
    "the semantic oracle, not internal debug assertions, decides",
]

PROPS = {
    "C18": dict(
        flavour="asan",
        level="exploration",
        harnesses=["c18_algo", "c18_grid"],
        exhaustive=["c18_algo"],
        quick=dict(shards=8, cases=60000, min_nontrivial=1000),
        thorough=dict(shards=8, cases=400000, fuzz_s=240, fuzz_jobs=8, fuzz_max_len=256, min_nontrivial=1000),
        assumptions=COMMON_ASSUME + [
            "inputs respect the functions' documented preconditions (sorted ranges for searches, "
            "strictly increasing non-uniform grids, queries inside [front, back)); NaN is never generated",
            "grid lookups within rounding distance of a knot may land in either adjacent bin",
        ],
    ),
    "C03": dict(
        flavour="asan",
        level="exploration",
        harnesses=["c03_nav"],
        quick=dict(shards=16, cases=600, min_nontrivial=500),
        thorough=dict(shards=16, cases=20000, fuzz_s=600, fuzz_jobs=16, fuzz_max_len=512, min_nontrivial=500),
        assumptions=COMMON_ASSUME + [
            "geometries are valid ORANGE inputs: bundled .org.json files (those with identical surfaces in one unit or "
            "without runtime support are skipped), raw OrangeInput and construction-API models that are non-overlapping by construction",
            "start points are farther than 4*delta from every surface (initialising on a surface is documented as prohibited); "
            "crossings within delta of another candidate (corner, tangent, coincident faces) are counted, positions there are not judged",
            "navigation operations are generated only in the orders the documented protocol and the real callers "
            "(LinearPropagator, FieldPropagator, BoundaryExecutor) use",
            "delta = 4*max(tol.abs, tol.rel*|x|) of the input under test",
        ],
    ),
    "C13": dict(
        flavour="asan",
        level="exploration",
        harnesses=["c13_rng"],
        exhaustive=["c13_rng"],
        quick=dict(shards=15, cases=40000, min_nontrivial=1000),
        thorough=dict(shards=16, cases=1500000, fuzz_s=600, fuzz_jobs=16, fuzz_max_len=48, min_nontrivial=1000),
        assumptions=COMMON_ASSUME + [
            "reference = Marsaglia's xorwow recurrence transcribed from the paper and its 160x160 GF(2) transition matrix; "
            "states are sampled (the jump is linear in the state, so a wrong polynomial fails for all but a 2^-k fraction of states)",
            "sub-claims decided exhaustively: every one of the 64 jump polynomials alone, order of T = 2^160-1, "
            "GenerateCanonical32<float> over all 2^32 outputs",
        ],
    ),
    "C15": dict(
        flavour="asan",
        level="exploration",
        harnesses=["c15_dist", "c15_eloss"],
        quick=dict(shards=8, cases=5000, min_nontrivial=1000, per_harness={"c15_eloss": dict(cases=3500)}),
        thorough=dict(shards=8, cases=150000, fuzz_s=300, fuzz_jobs=8, fuzz_max_len=168, min_nontrivial=1000,
                      per_harness={"c15_eloss": dict(cases=100000)}),
        assumptions=COMMON_ASSUME + [
            "statistical oracles reject at alpha=1e-9 per test and only if a re-test on a fresh stream also fails; "
            "biases below ~4/sqrt(N) (N <= 2e4 per case) are not detectable",
            "documented approximations are fitted against their documented construction (Poisson above lambda=16: rounded normal)",
        ],
    ),
    "C20": dict(
        flavour="asan",
        level="exploration",
        harnesses=["c20_optical"],
        quick=dict(shards=16, cases=12000, min_nontrivial=1000),
        thorough=dict(shards=16, cases=400000, fuzz_s=600, fuzz_jobs=16, fuzz_max_len=256, min_nontrivial=1000),
        assumptions=COMMON_ASSUME + [
            "refractive-index tables are strictly increasing in energy (required by optical::MaterialParams); "
            "Cerenkov offload means above 16 photons are not generated",
            "per-photon tolerances: norms/orthogonality 1e-10, cone 1e-7 (rotate() recovers the polar angle as sqrt(1-z^2)), "
            "scintillation d.p 6e-8",
        ],
    ),
    "C14": dict(
        flavour="asan",
        level="exploration",
        harnesses=["c14_calc", "c14_step"],
        quick=dict(shards=8, cases=30000, min_nontrivial=1000, per_harness={"c14_step": dict(cases=1200)}),
        thorough=dict(shards=8, cases=800000, fuzz_s=300, fuzz_jobs=8, fuzz_max_len=512, min_nontrivial=1000,
                      fuzz=["c14_calc"], per_harness={"c14_step": dict(cases=40000)}),
        assumptions=COMMON_ASSUME + [
            "tables respect the builders' documented preconditions (positive log-spaced grids, range tables generated as the "
            "integral of 1/(dE/dx)); energies above the table maximum are not judged for range-based relations",
            "tolerance tau = 64 eps (1+|ln E|) E max|slope of adjacent bins| + 8 eps |y|: the code bins on ln E but interpolates on exp(knot)",
            "monotonicity of the mean loss in the step is required within a branch of the documented two-branch algorithm",
        ],
    ),
    "C10": dict(
        flavour="asan",
        level="exploration",
        harnesses=["c10_csg"],
        exhaustive=["c10_csg"],
        quick=dict(shards=16, cases=2500, min_nontrivial=1000),
        thorough=dict(shards=16, cases=100000, fuzz_s=900, fuzz_jobs=16, fuzz_max_len=400, fuzz_args=["-len_control=0"], min_nontrivial=1000),
        assumptions=COMMON_ASSUME + [
            "each generated tree has <= 12 surfaces so its truth table is computed exhaustively (no sampling of assignments); "
            "the space of trees is sampled",
            "documented preconditions are respected: simplify(start) with false_node_id < start < size, "
            "transform_negated_joins only on alias-free trees without double negations",
        ],
    ),
    "C04": dict(
        flavour="asan",
        level="exploration",
        harnesses=["c04_em_basic", "c04_em_data"],
        quick=dict(shards=8, cases=40000, min_nontrivial=1000),
        thorough=dict(shards=8, cases=1000000, fuzz_s=600, fuzz_jobs=8, fuzz_max_len=64, min_nontrivial=1000),
        assumptions=COMMON_ASSUME + [
            "models are constructed as their unit tests construct them (public API) for 8 elements H..U / 7 materials / 28 cut values; "
            "data-driven models only for the bundled Z (Livermore PE Z=19, Seltzer-Berger Z=29, CHIPS He/Cu)",
            "applicability end points 0 and infinity are replaced by 1e-6 and 1e8 MeV; momentum tolerance 1e-7 p_in "
            "(floor set by rotate()'s sqrt(1-z^2) angular resolution)",
            "a draw-count bound is reported only if three independent streams exceed it",
        ],
    ),
    "C09": dict(
        flavour="asan",
        level="exploration",
        harnesses=["c09_construct"],
        quick=dict(shards=16, cases=700, min_nontrivial=1000),
        thorough=dict(shards=16, cases=30000, fuzz_s=900, fuzz_jobs=16, fuzz_max_len=800, min_nontrivial=1000),
        assumptions=COMMON_ASSUME + [
            "models are valid by construction (first-match partition of cutting objects; finite unit boundaries); "
            "membership oracle written from the class documentation only; points within 4 tol of any face on the way are not judged",
            "arrays, involutes, overlapping daughters and non-convex unit boundaries are not generated",
        ],
    ),
    "C12": dict(
        flavour="asan",
        level="exploration",
        harnesses=["c12_surf", "c12_xform"],
        quick=dict(shards=8, cases=40000, min_nontrivial=1000, per_harness={"c12_xform": dict(cases=25000)}),
        thorough=dict(shards=8, cases=2000000, fuzz_s=600, fuzz_jobs=8, fuzz_max_len=256, min_nontrivial=1000),
        assumptions=COMMON_ASSUME + [
            "tolerances are K*eps*(sum of |terms| the code adds) with K = 256 (surfaces) / 64 (transforms); documented fuzzy zones "
            "(|a| < 1e-10 'along surface', near-tangent, on-surface state) are modelled explicitly",
            "involute tolerances follow InvoluteSolver.hh (r_b*1e-8 convergence, r_b*1e-6 on-state floor)",
        ],
    ),
    "C01": dict(
        flavour="asan",
        level="exploration",
        harnesses=["c01_energy"],
        quick=dict(shards=16, cases=220, min_nontrivial=500),
        thorough=dict(shards=16, cases=12000, fuzz_s=600, fuzz_jobs=16, fuzz_max_len=640, min_nontrivial=500),
        assumptions=COMMON_ASSUME + [
            "physics data are synthetic ImportData pushed through the production construction path (no Geant4 tables offline): "
            "Klein-Nishina, Bethe-Heitler, Moller-Bhabha, e+ annihilation with generated lambda/dE/dx/range tables, Urban MSC, "
            "plus a harness photon-absorption process standing in for the photoelectric effect",
            "tables respect what the importer produces: lambda grids start at the model's minimum primary energy with zero cross section there; "
            "range = integral of 1/(dE/dx); the integral-approach option is left on",
            "events whose Stepper-call budget (20000) or initializer capacity is exhausted are counted, not judged (C02 / C16)",
            "ledger tolerance 1e-11 relative per track and per event",
        ],
    ),
    "C05": dict(
        flavour="asan",
        level="exploration",
        harnesses=["c05_steps"],
        quick=dict(shards=16, cases=220, min_nontrivial=300),
        thorough=dict(shards=16, cases=12000, fuzz_s=600, fuzz_jobs=16, fuzz_max_len=640, min_nontrivial=300),
        assumptions=COMMON_ASSUME + [
            "same synthetic problems as C01; harness snapshot actions at user_start/user_pre/user_post are read-only",
            "displacement <= length is judged exactly without field, with slack delta_intersection + epsilon_rel_max*length in a field "
            "(documented FieldPropagator caveats) and not judged for field + MSC (lateral displacement is applied about the initial direction)",
            "volumes are compared with the independent locator only at points farther than 8*delta from every surface",
        ],
    ),
    "C02": dict(
        flavour="asan",
        level="exploration",
        harnesses=["c02_population"],
        quick=dict(shards=16, cases=220, min_nontrivial=500),
        thorough=dict(shards=16, cases=12000, fuzz_s=600, fuzz_jobs=16, fuzz_max_len=704, min_nontrivial=500),
        assumptions=COMMON_ASSUME + [
            "physics data are synthetic ImportData pushed through the production construction path (see C01)",
            "histories are physics-driven (real interactors); scripted per-step outcomes are not generated in this version",
            "events whose Stepper-call budget (30000) is exhausted are judged non-terminating only if a single track took > 20000 steps",
        ],
    ),
    "C06": dict(
        flavour="asan",
        level="exploration",
        harnesses=["c06_repro"],
        quick=dict(shards=16, cases=160, min_nontrivial=200),
        thorough=dict(shards=16, cases=8000, fuzz_s=600, fuzz_jobs=16, fuzz_max_len=704, min_nontrivial=200),
        assumptions=COMMON_ASSUME + [
            "physics data are synthetic ImportData pushed through the production construction path (see C01)",
            "both runs use the same binary and flavour; OpenMP is off (serial track-id assignment); TrackOrder::init_charge is a layout policy and excluded",
            "action ids are compared by label (the status checker adds an action)",
        ],
    ),
    "C16": dict(
        flavour="asan",
        level="fault_enumeration",
        harnesses=["c16_starve"],
        quick=dict(shards=16, cases=110, min_nontrivial=60),
        thorough=dict(shards=16, cases=10000, fuzz_s=600, fuzz_jobs=16, fuzz_max_len=704, min_nontrivial=100),
        assumptions=COMMON_ASSUME + [
            "physics data are synthetic ImportData pushed through the production construction path (see C01)",
            "faults = secondary stack capacities 1..8 and initializer capacities 1..16 on generated problems (one capacity per case)",
            "a capacity below what a single interaction needs cannot succeed: that livelock is the listed finding F5",
        ],
    ),
    "C17": dict(
        flavour="asan",
        level="exploration",
        harnesses=["c17_scoring"],
        quick=dict(shards=16, cases=160, min_nontrivial=200),
        thorough=dict(shards=16, cases=8000, fuzz_s=600, fuzz_jobs=16, fuzz_max_len=704, min_nontrivial=200),
        assumptions=COMMON_ASSUME + [
            "physics data are synthetic ImportData pushed through the production construction path (see C01)",
            "ground truth = unfiltered all-field stream of the same problem on a twin world (relies on the reproducibility checked by C06)",
            "SimpleCalo is tested alone (it indexes tallies by the shared detector id); single stream",
        ],
    ),
    "C08": dict(
        flavour="asan",
        level="exploration",
        harnesses=["c08_field", "c08_alongstep"],
        quick=dict(shards=16, cases=2500, min_nontrivial=1000, per_harness={"c08_alongstep": dict(cases=120)}),
        thorough=dict(shards=16, cases=150000, fuzz_s=900, fuzz_jobs=16, fuzz_max_len=704, min_nontrivial=1000,
                      fuzz=["c08_field"], per_harness={"c08_alongstep": dict(cases=6000)}),
        assumptions=COMMON_ASSUME + [
            "helix tolerance = 10*epsilon_rel_max per integration step + phase error of the un-renormalised ODE momentum + "
            "delta_intersection/minimum_step terms (error model in harness/notes/C08.md); RZ-map fields get oracles 1-3 only",
            "documented FieldPropagator caveats are respected: bump when stuck on a boundary is counted, not judged",
            "c08_alongstep (PropagationApplier inside the stepping loop): displacement along B = length x pitch cosine is judged "
            "only for gyroradius > 0.05 cm and |pitch cosine| > 0.05, tolerance 1 % of the length + 1e-4 cm",
        ],
    ),
    "C11": dict(
        flavour="asan",
        level="exploration",
        harnesses=["c11_safety"],
        quick=dict(shards=16, cases=2500, min_nontrivial=1000),
        thorough=dict(shards=16, cases=150000, fuzz_s=900, fuzz_jobs=16, fuzz_max_len=512, min_nontrivial=1000),
        assumptions=COMMON_ASSUME + [
            "only the stated inequality is checked (safety 0 is always acceptable); points on surfaces are excluded",
            "find_safety(max_step) is held to min(result, max_step), as its callers use it",
        ],
    ),
    "C19": dict(
        flavour="asan",
        level="exploration",
        harnesses=["c19_json"],
        exhaustive=["c19_json"],
        quick=dict(shards=16, cases=1500, min_nontrivial=1000),
        thorough=dict(shards=16, cases=80000, fuzz_s=900, fuzz_jobs=16, fuzz_max_len=1024, min_nontrivial=1000),
        assumptions=COMMON_ASSUME + [
            "oriented bounding zones are not part of the JSON format (never read by tracking) and are not compared; a null unit bbox of a "
            "non-global unit reads back as infinite; a zero Translation of an array cell reads back as NoTransformation (reader's documented normalisation)",
        ],
    ),
    "C07": dict(
        flavour="asan",
        level="exploration",
        harnesses=["c07_streams"],
        shard_flavours=["asan", "tsan"],
        extra_builds=[dict(flavour="tsan", targets=["c07_streams_pbt"])],
        quick=dict(shards=8, cases=40, min_nontrivial=40, per_flavour={"tsan": dict(shards=4, cases=12)}),
        thorough=dict(shards=8, cases=3000, min_nontrivial=60, per_flavour={"tsan": dict(shards=8, cases=800)}),
        assumptions=COMMON_ASSUME + [
            "threads are free-running (generated start skews); only interleavings that happen to occur are observed; in the tsan flavour "
            "any ThreadSanitizer report aborts the shard and is reported with the case's bytes (a race that needs a specific instruction "
            "interleaving and is invisible to TSan's happens-before analysis can be missed)",
            "std::thread per stream with its own Stepper/StreamId as in app/celer-sim/Transporter.cc; the OpenMP pragma and Runner cannot run offline",
            "synthetic physics problems as for C01; per-event equality relies on reseeding (C06)",
        ],
    ),
}
