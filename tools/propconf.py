"""Per-property configuration of the checks (harnesses, budgets, levels)."""

COMMON_ASSUME = [
    "host (CPU) code paths only; CUDA/HIP kernels are not executed",
    "clang 14 -O1 with ASan+UBSan, CELERITAS_DEBUG=OFF (the production assertion level); "
    "the semantic oracle, not internal debug assertions, decides",
]

PROPS = {
    "C18": dict(
        flavour="asan",
        level="exploration",
        harnesses=["c18_algo", "c18_grid"],
        exhaustive=["c18_algo"],
        quick=dict(shards=8, cases=60000, min_nontrivial=1000),
        thorough=dict(shards=8, cases=400000, fuzz_s=240, fuzz_jobs=8, fuzz_max_len=256, min_nontrivial=1000),
        assumptions=COMMON_ASSUME + [
            "inputs respect the functions' documented preconditions (sorted ranges for searches, "
            "strictly increasing non-uniform grids, queries inside [front, back)); NaN is never generated",
            "grid lookups within rounding distance of a knot may land in either adjacent bin",
        ],
    ),
}
